--------------------------- MODULE Trace_Outcome ---------------------------
(***************************************************************************)
(* Batch trace checker for Outcome.tla (C14).  The harness observes each   *)
(* real run from outside - output file before / after, exit status,        *)
(* watchdog - and ships the observation sequences as a JSON array of       *)
(* arrays of strings: "start", "wrote" (the output file differs from the   *)
(* sentinel after the run), "exit_ok", "exit_err", "hang".                 *)
(* Each observed event must be an enabled action of Outcome.tla:           *)
(*   wrote    = the phases up to the write finished without rejecting, and *)
(*              Write happened;                                            *)
(*   exit_err = Reject (only enabled before the write);                    *)
(*   exit_ok  = DoPrint (only enabled after the write).                    *)
(* A trace is accepted iff all its events are consumed and the run ended;  *)
(* "hang" matches no action.  FailClosed / SuccessMeansWritten are checked *)
(* as invariants on the replayed states.                                   *)
(***************************************************************************)
EXTENDS Outcome, Json, IOUtils

Traces == JsonDeserialize(IOEnv.TRACE_FILE)

VARIABLES tid, pos
tvars == <<phase, outfile, work, status, tid, pos>>

TInit == /\ tid \in 1..Len(Traces) /\ pos = 1
         /\ phase = "read" /\ outfile = "old" /\ work = 0 /\ status = "run"

Ev == Traces[tid][pos]

TStart == Ev = "start" /\ pos = 1 /\ UNCHANGED vars
\* everything between start and the write is internal: compose the silent phase changes with Write
TWrote == /\ Ev = "wrote" /\ pos > 1 /\ status = "run" /\ outfile = "old" /\ phase # "print"
          /\ \E p \in {"write"} : phase' = "print" /\ outfile' = "new" /\ UNCHANGED <<work, status>>
TExitErr == Ev = "exit_err" /\ pos > 1 /\ Reject
TExitOk == Ev = "exit_ok" /\ pos > 1 /\ DoPrint

TStep == /\ pos <= Len(Traces[tid])
         /\ (TStart \/ TWrote \/ TExitErr \/ TExitOk)
         /\ pos' = pos + 1 /\ tid' = tid

TraceSpec == TInit /\ [][TStep]_tvars

Accepted == (pos = Len(Traces[tid]) + 1 /\ status \in {"ok", "err"}) => PrintT(<<"ACC", ToJson([t |-> tid])>>)
=============================================================================
