------------------------------ MODULE Outcome ------------------------------
(***************************************************************************)
(* C14: the outcome automaton of one assembler run, and its use as a batch *)
(* trace checker.                                                          *)
(*                                                                         *)
(* A run goes through the pipeline phases; any phase before the write may  *)
(* fail; the image file is written exactly once, after every phase that    *)
(* can reject the program; pretty printing comes after the write and must  *)
(* not fail.  Every loop of the pipeline has a variant that strictly       *)
(* decreases (lines left to read, objects left in a pass, addresses left   *)
(* in the window), so the run terminates.                                  *)
(*                                                                         *)
(* Generative use (SPECIFICATION Spec): TLC checks FailClosed,             *)
(* SuccessMeansWritten and Termination (under weak fairness).              *)
(* Trace use: Trace_Outcome.tla replays observations of real runs against  *)
(* these actions.                                                          *)
(***************************************************************************)
EXTENDS Integers, Sequences, TLC

CONSTANTS MaxWork      \* bound on the work counters of the generative instance

VARIABLES phase, outfile, work, status
vars == <<phase, outfile, work, status>>

Phases == <<"read", "pass1", "pass2", "image", "write", "print", "done">>
NextPhase(p) == CASE p = "read" -> "pass1" [] p = "pass1" -> "pass2" [] p = "pass2" -> "image"
                  [] p = "image" -> "write" [] p = "write" -> "print" [] p = "print" -> "done" [] OTHER -> "done"
CanFail(p) == p \in {"read", "pass1", "pass2"}

Init == phase = "read" /\ outfile = "old" /\ work \in 0..MaxWork /\ status = "run"

\* one unit of work of the current phase (a line read, an object placed, an address emitted)
Step == /\ status = "run" /\ phase \in {"read", "pass1", "pass2", "image"} /\ work > 0
        /\ work' = work - 1 /\ UNCHANGED <<phase, outfile, status>>
\* the phase is finished; the next one has its own finite amount of work
Advance == /\ status = "run" /\ phase \in {"read", "pass1", "pass2", "image"} /\ work = 0
           /\ phase' = NextPhase(phase) /\ work' \in 0..MaxWork /\ UNCHANGED <<outfile, status>>
Reject == /\ status = "run" /\ CanFail(phase)
          /\ status' = "err" /\ UNCHANGED <<phase, outfile, work>>
Write == /\ status = "run" /\ phase = "write"
         /\ outfile' = "new" /\ phase' = "print" /\ UNCHANGED <<work, status>>
DoPrint == /\ status = "run" /\ phase = "print"
         /\ phase' = "done" /\ status' = "ok" /\ UNCHANGED <<outfile, work>>

Next == Step \/ Advance \/ Reject \/ Write \/ DoPrint
Spec == Init /\ [][Next]_vars /\ WF_vars(Next)

FailClosed == status = "err" => outfile = "old"
SuccessMeansWritten == status = "ok" => outfile = "new"
NoWriteBeforeChecks == outfile = "new" => phase \in {"print", "done"}
Progress == [][(phase' = phase /\ status' = status) => work' < work]_vars
Termination == <>(status \in {"ok", "err"})

=============================================================================
