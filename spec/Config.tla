------------------------------- MODULE Config -------------------------------
(***************************************************************************)
(* C19: acceptance of ISA definitions, version gates, #require.            *)
(*                                                                         *)
(* Scenario kinds                                                          *)
(*  def      a base definition shape with at most one fault from the       *)
(*           catalogue injected; accepted iff well-formed (no fault)       *)
(*  minver   general.min_version = v: accepted iff  MinSupported <= v and  *)
(*           v <= Running  in version order                                *)
(*  require  a source line  #require "name op v"  under an ISA that        *)
(*           declares version iv: honoured iff the name matches and        *)
(*           iv op v holds in version order (no op/v: the name alone).     *)
(*           name: how the required name relates to the ISA's name - same, *)
(*           other, a proper prefix / suffix / infix of it, longer, empty; *)
(*           only "same" matches                                           *)
(*  require2 the same line preceded by another #require line that is       *)
(*           satisfied (the bare matching name): EVERY #require line is    *)
(*           judged on its own                                             *)
(*                                                                         *)
(* Versions are [rel, pre]: a release tuple of 2 or 3 numbers (missing     *)
(* components are 0) and a pre-release rank (a < b < rc < final, with a    *)
(* number).  Validate is the sequence of checks in the order the loader    *)
(* performs them (first failure wins); WellFormed is the declarative       *)
(* conjunction.                                                            *)
(***************************************************************************)
EXTENDS Integers, Sequences, FiniteSets, TLC, Json

CONSTANT Scenarios
VARIABLE sc

Ver(rel, pre) == [rel |-> rel, pre |-> pre]
Final == 4000
PreRank(kind, n) == CASE kind = "a" -> 1000 + n [] kind = "b" -> 2000 + n [] kind = "rc" -> 3000 + n [] OTHER -> Final
Comp(v, i) == IF i <= Len(v.rel) THEN v.rel[i] ELSE 0
VLess(a, b) ==
    \/ Comp(a, 1) < Comp(b, 1)
    \/ (Comp(a, 1) = Comp(b, 1) /\ Comp(a, 2) < Comp(b, 2))
    \/ (Comp(a, 1) = Comp(b, 1) /\ Comp(a, 2) = Comp(b, 2) /\ Comp(a, 3) < Comp(b, 3))
    \/ (Comp(a, 1) = Comp(b, 1) /\ Comp(a, 2) = Comp(b, 2) /\ Comp(a, 3) = Comp(b, 3) /\ a.pre < b.pre)
VEq(a, b) == ~VLess(a, b) /\ ~VLess(b, a)
VLe(a, b) == ~VLess(b, a)
Cmp(a, op, b) == CASE op = "==" -> VEq(a, b) [] op = ">=" -> VLe(b, a) [] op = "<=" -> VLe(a, b)
                   [] op = ">" -> VLess(b, a) [] op = "<" -> VLess(a, b) [] OTHER -> FALSE

Running == Ver(<<0, 4, 3>>, PreRank("b", 1))
MinSupported == Ver(<<0, 3, 0>>, Final)

\* the fault catalogue, in the order the loader would meet the faults
FaultOrder == << "deprecated_memory", "no_general", "no_instructions", "min_version_newer", "min_version_older", "origin_below_global",
                 "isa_version_not_semver", "register_keyword", "unknown_operand_type", "undeclared_register", "inverted_range",
                 "mnemonic_keyword", "mnemonic_keyword_upper", "missing_bytecode", "count_mismatch", "unknown_operand_set",
                 "count_zero_with_list", "count_zero_unknown_set", "count_smaller_than_list", "variant_count_mismatch", "variant_count_zero_with_list",
                 "variant_unknown_operand_set", "specific_undeclared_register", "specific_inverted_range", "specific_unknown_operand_type",
                 "macro_count_mismatch", "macro_count_smaller_than_list", "macro_unknown_operand_set", "macro_keyword", "macro_same_as_instruction", "macro_same_as_instruction_other_case", "zone_inverted", "zone_beyond_width", "zone_end_is_space_size",
                 "global_beyond_width" >>
Faults == {FaultOrder[i] : i \in 1..Len(FaultOrder)}

S(kind, shape, fault, v, iv, op, name) == [kind |-> kind, shape |-> shape, fault |-> fault, v |-> v, iv |-> iv, op |-> op, name |-> name]
NoV == Ver(<<0>>, Final)

WellFormed(x) == x.fault = "none"
\* the loader: checks in order; a definition with fault f is stopped by check f
RECURSIVE ValidateFrom(_, _)
ValidateFrom(x, i) == IF i > Len(FaultOrder) THEN "ok" ELSE IF x.fault = FaultOrder[i] THEN FaultOrder[i] ELSE ValidateFrom(x, i + 1)
Validate(x) == ValidateFrom(x, 1)

Accepted(x) ==
    CASE x.kind = "def"     -> Validate(x) = "ok"
      [] x.kind = "minver"  -> VLe(MinSupported, x.v) /\ VLe(x.v, Running)
      \* requiredef: the ISA definition names no language, so the language is called like its file without the extension (gen.isa.v2)
      [] x.kind = "requiredef" -> x.name = "same"
      [] x.kind \in {"require", "require2"} -> x.name = "same" /\ (x.op = "" \/ Cmp(x.iv, x.op, x.v))
      [] OTHER -> FALSE

Init == sc \in Scenarios
Spec == Init /\ [][FALSE]_sc

ValidateIffWellFormed == sc.kind = "def" => (Validate(sc) = "ok" <=> WellFormed(sc))
SingleFaultRejected == (sc.kind = "def" /\ sc.fault \in Faults) => ~Accepted(sc)
\* the version order is a strict total order on the versions of the scenario, numeric and never lexical
GateIsVersionOrder ==
    sc.kind = "minver" => /\ ~(VLess(sc.v, Running) /\ VLess(Running, sc.v))
                          /\ (VLess(sc.v, Running) \/ VLess(Running, sc.v) \/ VEq(sc.v, Running))
                          /\ (Accepted(sc) <=> ~VLess(Running, sc.v) /\ ~VLess(sc.v, MinSupported))
OperatorsConsistent ==
    sc.kind = "require" => /\ Cmp(sc.iv, ">=", sc.v) = (Cmp(sc.iv, ">", sc.v) \/ Cmp(sc.iv, "==", sc.v))
                           /\ Cmp(sc.iv, "<=", sc.v) = ~Cmp(sc.iv, ">", sc.v)
                           /\ Cmp(sc.iv, "<", sc.v) = ~Cmp(sc.iv, ">=", sc.v)

Emit == PrintT(<<"EMIT", ToJson([s |-> sc, ok |-> Accepted(sc)])>>)
=============================================================================
