------------------------------ MODULE MC_Cond ------------------------------
EXTENDS Cond
LA == {0, 7, 9, 10, 16, 104, 1000000, -7}
LB == {1, 2, 3, 9600}
RC == {0, 3, 7, 10, 16, 104, 105}
RD == {1, 2}
Words == {"z80", "z81", "release"}
ScText == { T(lw, op, rw, q) : lw \in Words, op \in {"==", "!="}, rw \in Words, q \in BOOLEAN }
ScQuick == { C(a, b, op, c, d, q, FALSE) : a \in LA, b \in LB, op \in Ops, c \in RC, d \in RD, q \in BOOLEAN }
           \cup { C(a, b, "!=", 0, 1, FALSE, TRUE) : a \in LA, b \in LB } \cup ScText
ScThorough == { C(a, b, op, c, d, q, FALSE) : a \in (LA \cup {1, 2, 3, 255, 256, -1, -104}), b \in (LB \cup {7, 10}), op \in Ops,
                                             c \in (RC \cup {1, 2, 9, 255, 256}), d \in (RD \cup {3}), q \in BOOLEAN }
           \cup { C(a, b, "!=", 0, 1, FALSE, TRUE) : a \in (LA \cup {1, 2, 3, -1}), b \in (LB \cup {7, 10}) } \cup ScText
=============================================================================
