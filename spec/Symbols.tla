------------------------------ MODULE Symbols ------------------------------
(***************************************************************************)
(* C09: preprocessor symbol substitution.                                  *)
(*                                                                         *)
(* A line is a sequence of TOKENS: identifiers, numbers, operators.  An    *)
(* identifier is a whole word by construction, so "whole-word, not         *)
(* substring" is built into the alphabet: the identifier universe contains *)
(* names that are prefixes / suffixes / infixes of one another (AB, ABC,   *)
(* XAB, BC), and the harness spells tokens as text.                        *)
(*                                                                         *)
(* History: a sequence of lines, each a definition D(name, replacement) or *)
(* a use U(tokens).  Symbols defined by the ISA definition or the command  *)
(* line are there from the start (InitDefs).  A use line is rewritten      *)
(* until no DEFINED symbol remains, with the definitions made so far.      *)
(*   Expand     - the implementation-shaped recursion (expand each symbol  *)
(*                fully, path of symbols being expanded = cycle detection) *)
(*   NormalForm - the statement: repeated single-occurrence rewriting;     *)
(*                leftmost-first and rightmost-first strategies            *)
(* TLC checks they all agree (UniqueNormalForm), OnlyWholeWords,           *)
(* OnlyAlreadyDefined, CycleRejected, RedefinitionRejected.                *)
(***************************************************************************)
EXTENDS Integers, Sequences, FiniteSets, TLC, Json, SequencesExt

CONSTANTS Lines,      \* alphabet: set of line records [k, n, r]: k = "D" (define n as r) or "U" (use tokens r)
          InitDefs,   \* sequence of [n, r]: symbols defined by the ISA definition / command line
          MaxLen

VARIABLES hist, defs, outs, status
vars == <<hist, defs, outs, status>>

Names == {"AB", "BC", "ABC", "XAB"}
D(n, r) == [k |-> "D", n |-> n, r |-> r]
U(r) == [k |-> "U", n |-> "", r |-> r]

Defined(ds, n) == \E i \in 1..Len(ds) : ds[i].n = n
ReplOf(ds, n) == (CHOOSE i \in 1..Len(ds) : ds[i].n = n) 
Repl(ds, n) == ds[ReplOf(ds, n)].r

Cyc == <<"#cycle">>

\* implementation-shaped: expand every token; a defined symbol is replaced by the expansion of its replacement
RECURSIVE Expand(_, _, _)
Expand(toks, ds, path) ==
    IF toks = <<>> THEN <<>>
    ELSE LET t == Head(toks)
             rest == Expand(Tail(toks), ds, path)
         IN  IF rest = Cyc THEN Cyc
             ELSE IF Defined(ds, t)
                  THEN IF t \in path THEN Cyc
                       ELSE LET e == Expand(Repl(ds, t), ds, path \cup {t}) IN IF e = Cyc THEN Cyc ELSE e \o rest
                  ELSE <<t>> \o rest

\* statement-shaped: rewrite ONE occurrence at a time until none is left; fuel bounds non-terminating (cyclic) rewriting
Occ(toks, ds) == {i \in 1..Len(toks) : Defined(ds, toks[i])}
RewriteAt(toks, ds, i) == SubSeq(toks, 1, i - 1) \o Repl(ds, toks[i]) \o SubSeq(toks, i + 1, Len(toks))
RECURSIVE NormalForm(_, _, _, _)
NormalForm(toks, ds, leftmost, fuel) ==
    LET oc == Occ(toks, ds) IN
    IF oc = {} THEN toks
    ELSE IF fuel = 0 \/ Len(toks) > 40 THEN Cyc
    ELSE LET i == IF leftmost THEN CHOOSE x \in oc : \A y \in oc : x <= y ELSE CHOOSE x \in oc : \A y \in oc : x >= y
         IN  NormalForm(RewriteAt(toks, ds, i), ds, leftmost, fuel - 1)

InitDs == InitDefs
Init == hist = <<>> /\ defs = InitDs /\ outs = <<>> /\ status = "run"

Step(l) ==
    /\ status = "run" /\ Len(hist) < MaxLen
    /\ hist' = Append(hist, l)
    /\ IF l.k = "D"
       THEN IF Defined(defs, l.n)
            THEN status' = "redefine" /\ UNCHANGED <<defs, outs>>
            ELSE defs' = Append(defs, [n |-> l.n, r |-> l.r]) /\ UNCHANGED <<outs, status>>
       ELSE LET e == Expand(l.r, defs, {}) IN
            IF e = Cyc THEN status' = "cycle" /\ UNCHANGED <<defs, outs>>
            ELSE outs' = Append(outs, e) /\ UNCHANGED <<defs, status>>

Next == \E l \in Lines : Step(l)
Spec == Init /\ [][Next]_vars

\* properties, evaluated on the last line of the history
LastUse == hist # <<>> /\ hist[Len(hist)].k = "U"
DefsBefore == defs      \* definitions made so far (a use never sees later ones: they do not exist yet)
UniqueNormalForm ==
    LastUse => LET toks == hist[Len(hist)].r
                   e == Expand(toks, defs, {})
                   l == NormalForm(toks, defs, TRUE, 60)
                   r == NormalForm(toks, defs, FALSE, 60)
               IN  e = l /\ l = r
NoDefinedSymbolRemains ==
    (LastUse /\ status = "run") => Occ(outs[Len(outs)], defs) = {}
\* an identifier that is not itself defined is never touched, whatever defined names it contains
OnlyWholeWords ==
    (LastUse /\ status = "run") =>
        \A n \in Names : ~Defined(defs, n) =>
            Len(SelectSeq(outs[Len(outs)], LAMBDA t : t = n)) >= Len(SelectSeq(hist[Len(hist)].r, LAMBDA t : t = n))
CycleRejected ==
    (LastUse /\ status = "run") => NormalForm(hist[Len(hist)].r, defs, TRUE, 60) # Cyc
\* expansion works token by token: a line that repeats its tokens expands to the repeated expansion, however many times a
\* symbol occurs on it (the harness replays every use line also repeated nine times, licensed by this)
ExpansionIsTokenwise ==
    (LastUse /\ status = "run") =>
        LET toks == hist[Len(hist)].r
            e == outs[Len(outs)]
        IN  /\ Expand(toks \o <<"+">> \o toks, defs, {}) = e \o <<"+">> \o e
            /\ \A i \in 1..Len(toks) : Expand(SubSeq(toks, 1, i), defs, {}) \o Expand(SubSeq(toks, i + 1, Len(toks)), defs, {}) = e
RedefinitionRejected ==
    \A i, j \in 1..Len(defs) : i # j => defs[i].n # defs[j].n

HistJ == [i \in 1..Len(hist) |-> [k |-> hist[i].k, n |-> hist[i].n, r |-> hist[i].r]]
Emit == hist # <<>> => PrintT(<<"EMIT", ToJson([h |-> HistJ, outs |-> outs, st |-> status])>>)
=============================================================================
