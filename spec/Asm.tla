------------------------------- MODULE Asm -------------------------------
(***************************************************************************)
(* Generative form of the composed pipeline: TLC appends abstract lines    *)
(* from an alphabet (every program up to MaxLen lines) and Finish          *)
(* assembles the program with the step functions of AsmCore.tla; the       *)
(* design properties of C02 .. C08, C17 are stated here over the result,   *)
(* and Emit prints each terminal scenario with its expected observation.   *)
(***************************************************************************)
EXTENDS AsmCore

CONSTANTS
    Alphabet,       \* set of abstract lines a generative instance may append
    Blocks,         \* set of line SEQUENCES a generative instance may append in one step (structured programs: whole
                    \* included files, routines ...), so that long programs of a given shape are enumerated exhaustively
    MaxLen          \* bound on program length (generative instances)

VARIABLES prog, rd, phase, res
vars == <<prog, rd, phase, res>>

---------------------------------------------------------------------------
(* Generative behaviour: TLC appends lines; Finish assembles.              *)

NoRes == [status |-> "none"]

Init == prog = <<>> /\ rd = InitReader /\ phase = "read" /\ res = NoRes

LastComp(r) == LET cs == SelectSeq(r.lines, LAMBDA x : x.comp) IN IF cs = <<>> THEN "" ELSE Last(cs).k

\* Generator guards: keep away from what the properties leave open (see DESIGN.md 3.2).
Admissible(l, r) ==
    \* the value of a label that is immediately followed by an origin / alignment / zone directive is open
    /\ (l.k \in {"org", "orgl", "orgz", "zone", "align", "lzone", "lorgz", "lorg"} /\ Active(r.cstk)) => LastComp(r) # "lab"
    \* a condition over an undefined (or valueless) symbol is open
    \* (== against an undefined symbol is false in the documentation and in the code alike: generated)
    /\ (l.k \in {"if", "elif"} /\ Evaluated(l, r.cstk)) => Val(r.defs, l.n) # -1
    /\ (l.k = "ifnz" /\ Evaluated(l, r.cstk)) => Val(r.defs, l.n) >= 0
    \* an alias used as an operand of a compiled line needs its target to have a value
    /\ (l.k \in RefKinds /\ l.n \in SymNames /\ Active(r.cstk)) => (r.defs[l.n] = AliasS1 => r.defs["S1"] >= 0)
    \* include brackets nest, and an include inside an unselected branch is rendered with an empty file
    /\ l.k = "ince" => (r.fstk # <<>> /\ (Active(Last(r.fstk).cstk) => r.cstk = <<>>))
    /\ (l.k # "ince" /\ r.fstk # <<>> /\ ~Active(Last(r.fstk).cstk)) => FALSE
    /\ l.k = "incb" => Len(r.fstk) < 2
    \* a conditional chain that spans an include boundary is left open
    /\ (l.k \in {"elif", "else", "endif"} /\ r.fstk # <<>>) => r.cstk # <<>>

Read(l) ==
    /\ phase = "read" /\ rd.status = "run" /\ Len(prog) < MaxLen
    /\ Admissible(l, rd)
    /\ prog' = Append(prog, l)
    /\ rd' = ReadStep(rd, l)
    /\ UNCHANGED <<phase, res>>

RECURSIVE FoldBlock(_, _)
FoldBlock(r, b) == IF b = <<>> THEN [ok |-> TRUE, r |-> r]
                   ELSE IF r.status # "run" \/ ~Admissible(Head(b), r) THEN [ok |-> FALSE, r |-> r]
                   ELSE FoldBlock(ReadStep(r, Head(b)), Tail(b))
ReadBlock(b) ==
    /\ phase = "read" /\ rd.status = "run" /\ Len(prog) + Len(b) <= MaxLen
    /\ LET f == FoldBlock(rd, b) IN f.ok /\ rd' = f.r
    /\ prog' = prog \o b
    /\ UNCHANGED <<phase, res>>

Finishable(r) == r.status # "run" \/ (r.fstk = <<>> /\ r.cstk = <<>>)

Finish ==
    /\ phase = "read" /\ Finishable(rd)
    /\ phase' = "done"
    /\ res' = Assemble(rd)
    /\ UNCHANGED <<prog, rd>>

Next == (\E l \in Alphabet : Read(l)) \/ (\E b \in Blocks : ReadBlock(b)) \/ Finish

Spec == Init /\ [][Next]_vars

---------------------------------------------------------------------------
(* Properties of the design (checked by TLC on every bounded instance).    *)

Done == phase = "done"
Ok   == Done /\ res.status = "ok"

CompObjsRaw == [j \in 1..Len(res.objs) |-> [i |-> res.objs[Len(res.objs) + 1 - j].i, addr |-> res.objs[Len(res.objs) + 1 - j].addr]]
\* the step-wise reader equals the batch reader (sanity of the generative form)
ReaderIsFold == Done => res = Run(prog)

SortIsStableInsertion == Ok => SortByAddrLib(CompObjsRaw) = SortByAddr(CompObjsRaw)

(* C02 *)
CompObjs == SelectSeq(res.objs, LAMBDA o : o.k # "pdata")
\* objects in source order (objs is address-sorted): index by source position
SrcOrder == SortSeq(CompObjs, LAMBDA x, y : x.i < y.i)
Contiguity ==
    Ok => \A j \in 2..Len(SrcOrder) :
            LET o == SrcOrder[j]
                prevSame == SelectSeq(SubSeq(SrcOrder, 1, j - 1), LAMBDA x : x.zone = o.zone)
            IN  (o.k \notin {"org", "orgl", "orgz", "align"} /\ prevSame # <<>>)
                    => o.addr = Last(prevSame).addr + Last(prevSame).size
ReservedEqualsEmitted == Ok => \A j \in 1..Len(res.objs) :
                                  res.objs[j].k \in ByteKinds => Len(res.objs[j].bytes) = res.objs[j].size
AlignIsLeastMultiple ==
    Ok => \A j \in 1..Len(SrcOrder) : SrcOrder[j].k = "align" =>
            LET o == SrcOrder[j]
                page == IF o.a = 0 THEN PageSize ELSE o.a
                prevSame == SelectSeq(SubSeq(SrcOrder, 1, j - 1), LAMBDA x : x.zone = o.zone)
                cur == IF prevSame = <<>> THEN InitCur(rd.ztab)[o.zone] ELSE Last(prevSame).addr + Last(prevSame).size
            IN  o.addr % page = 0 /\ o.addr >= cur /\ o.addr < cur + page
LabelIsNextAddress ==
    Ok => \A j \in 1..Len(SrcOrder) : SrcOrder[j].k = "lab" =>
            LET o == SrcOrder[j]
                v == Lookup(res.labs, o.n, o.file, o.region)
            IN  /\ v = o.addr
                /\ (j < Len(SrcOrder) /\ SrcOrder[j + 1].k \notin {"org", "orgl", "orgz", "zone", "align"}
                        /\ SrcOrder[j + 1].zone = o.zone) => v = SrcOrder[j + 1].addr

(* C04 *)
BytePlaced == SelectSeq(res.objs, LAMBDA o : o.k \in ByteKinds /\ o.size > 0)
PairwiseOverlap(objs) ==
    \E x, y \in 1..Len(objs) : x < y /\ objs[x].size > 0 /\ objs[y].size > 0
        /\ objs[x].k \in ByteKinds /\ objs[y].k \in ByteKinds
        /\ objs[x].addr < objs[y].addr + objs[y].size /\ objs[y].addr < objs[x].addr + objs[x].size
NoSilentOverlap == Ok => ~PairwiseOverlap(res.objs)
\* a rejection for overlap is justified by two placed byte lines that really intersect
OverlapRejectionJustified ==
    (Done /\ res.status = "err" /\ res.why = "overlap") => PairwiseOverlap(res.objs \o PreDataObjs)

(* C05 *)
InsideZoneAndGlobal ==
    Ok => \A j \in 1..Len(res.objs) :
            LET o == res.objs[j] IN
            (o.k \in ByteKinds /\ o.size > 0 /\ o.k # "pdata") =>
                /\ rd.ztab[o.zone].s <= o.addr /\ o.addr + o.size - 1 <= rd.ztab[o.zone].e
                /\ rd.ztab["GLOBAL"].s <= o.addr /\ o.addr + o.size - 1 <= rd.ztab["GLOBAL"].e

(* C03 *)
WindowFaithful ==
    Ok => LET last == WinLast(res.mem) IN
          /\ Len(res.image) = MaxI(last - WinStart + 1, 0)
          /\ \A o \in 1..Len(res.image) :
                res.image[o] = IF (WinStart + o - 1) \in DOMAIN res.mem THEN res.mem[WinStart + o - 1] ELSE Fill
          /\ (WinEnd = -1 /\ DOMAIN res.mem # {}) => last = Max(DOMAIN res.mem)
\* the memory map is exactly the bytes of unmuted lines at their addresses
MemIsUnmutedBytes ==
    Ok => /\ \A j \in 1..Len(res.objs) : Emitting(res.objs[j]) =>
                \A t \in 1..res.objs[j].size : res.mem[res.objs[j].addr + t - 1] = res.objs[j].bytes[t]
          /\ \A a \in DOMAIN res.mem : \E j \in 1..Len(res.objs) :
                Emitting(res.objs[j]) /\ res.objs[j].addr <= a /\ a < res.objs[j].addr + res.objs[j].size

(* C08: the operational stack agrees with the declarative reading of the statement *)
\* Selected(j): line j of a single-file program (no includes) is inside selected branches only.
\* Walk the directives before j keeping, per open chain, whether the branch containing j is the
\* first whose condition held when reached.
RECURSIVE DeclActive(_, _, _, _)
\* chains: sequence of [cur, any] (cur: the current branch of this chain is selected on its own merits;
\* any: an earlier branch of the chain was).  defsAt: defs evolve only through selected defines.
DeclActive(p, j, chains, defs) ==
    IF j > Len(p) THEN <<>>
    ELSE
    LET l == p[j]
        allsel == \A c \in 1..Len(chains) : chains[c].cur
        here == <<allsel>>
    IN
    CASE l.k \in OpenKinds ->
            LET c == allsel /\ Holds(l, defs) IN
            <<TRUE>> \o DeclActive(p, j + 1, Append(chains, [cur |-> c, any |-> c, outer |-> allsel]), defs)
      [] l.k = "elif" ->
            LET t == Last(chains)
                c == t.outer /\ ~t.any /\ Holds(l, defs) IN
            <<TRUE>> \o DeclActive(p, j + 1, Append(Front(chains), [cur |-> c, any |-> t.any \/ c, outer |-> t.outer]), defs)
      [] l.k = "else" ->
            LET t == Last(chains) IN
            <<TRUE>> \o DeclActive(p, j + 1, Append(Front(chains), [cur |-> t.outer /\ ~t.any, any |-> TRUE, outer |-> t.outer]), defs)
      [] l.k = "endif" -> <<TRUE>> \o DeclActive(p, j + 1, Front(chains), defs)
      [] l.k \in {"mute", "unmute"} -> <<TRUE>> \o DeclActive(p, j + 1, chains, defs)
      [] l.k \in {"define", "alias"} -> here \o DeclActive(p, j + 1, chains, IF allsel /\ defs[l.n] = Undef
                                                                             THEN [defs EXCEPT ![l.n] = IF l.k = "alias" THEN AliasS1 ELSE l.a] ELSE defs)
      [] OTHER -> here \o DeclActive(p, j + 1, chains, defs)

NoIncludes == \A j \in 1..Len(prog) : prog[j].k \notin {"incb", "ince"}
ActiveEqualsSelected ==
    (Done /\ NoIncludes /\ Len(res.lines) = Len(prog)) =>
        LET d == DeclActive(prog, 1, <<>>, InitDefsFn) IN
        \A j \in 1..Len(prog) : res.lines[j].comp = d[j]

(* C06: a reference resolves to a definition only if that definition is visible from the reference *)
Visible(refFile, refRegion, key) ==
    CASE key[1] = "g" -> TRUE
      [] key[1] = "f" -> key[3] = refFile
      [] OTHER -> key[3] = refFile /\ key[4] = refRegion /\ refRegion # 0
ResolvesOnlyToVisible ==
    Ok => \A j \in 1..Len(res.objs) :
            LET o == res.objs[j] IN
            (o.k \in RefKinds /\ o.n # "") =>
                \E e \in 1..Len(res.labs) : /\ res.labs[e].key[2] = o.n
                                            /\ Visible(o.file, o.region, res.labs[e].key)
                                            /\ res.labs[e].v = OperandVal(o, res.labs)
NoDuplicateKeys == Ok => \A x, y \in 1..Len(res.labs) : x # y => res.labs[x].key # res.labs[y].key

(* C17: where literal pasting is expressible in the line language, the include semantics above IS      *)
(* pasting: no file- or local-scoped names, no zone selection, no origin inside the included text.      *)
Strip(p) == SelectSeq(p, LAMBDA l : l.k \notin {"incb", "ince"})
RECURSIVE InsideInc(_, _, _)
InsideInc(p, j, depth) ==      \* TRUE iff some line at include depth > 0 satisfies "is an org"
    IF j > Len(p) THEN FALSE
    ELSE IF p[j].k = "incb" THEN InsideInc(p, j + 1, depth + 1)
    ELSE IF p[j].k = "ince" THEN InsideInc(p, j + 1, depth - 1)
    ELSE (depth > 0 /\ p[j].k = "org") \/ InsideInc(p, j + 1, depth)
PasteClass(p) ==
    /\ \E j \in 1..Len(p) : p[j].k = "incb"
    /\ \A j \in 1..Len(p) : p[j].k \notin {"zone", "orgz"}
    /\ \A j \in 1..Len(p) :
          (p[j].n # "" /\ p[j].k \in ({"lab", "const"} \cup RefKinds)) => Cls(p[j].n) = "g"
    /\ ~InsideInc(p, 1, 0)
GlobalVals(labs) == {<<labs[e].key[2], labs[e].v>> : e \in 1..Len(labs)}
IncludeIsPaste ==
    (Done /\ PasteClass(prog)) =>
        LET r2 == Run(Strip(prog)) IN
        /\ r2.status = res.status
        /\ r2.image = res.image
        /\ (res.status = "ok" => GlobalVals(r2.labs) = GlobalVals(res.labs))

---------------------------------------------------------------------------
(* Emission of scenarios with the expected observation.                    *)

ProgJ(p) == [j \in 1..Len(p) |-> <<p[j].k, p[j].n, p[j].a, p[j].b>>]
ObjJ(o) == [i |-> o.i, k |-> o.k, addr |-> o.addr, size |-> o.size, muted |-> o.muted, zone |-> o.zone,
            bytes |-> IF "bytes" \in DOMAIN o THEN o.bytes ELSE <<>>]
LabJ(e) == [c |-> e.key[1], n |-> e.key[2], f |-> e.key[3], r |-> e.key[4], v |-> e.v]
MemJ(m) == LET as == SetToSortSeq(DOMAIN m, <) IN [j \in 1..Len(as) |-> <<as[j], m[as[j]]>>]

\* overlaps that involve a muted line are left open by the properties
MutedOverlap(objs) ==
    \E x, y \in 1..Len(objs) : x # y /\ objs[x].size > 0 /\ objs[y].size > 0 /\ objs[x].muted
        /\ objs[x].k \in ByteKinds /\ objs[y].k \in ByteKinds
        /\ objs[x].addr < objs[y].addr + objs[y].size /\ objs[y].addr < objs[x].addr + objs[x].size

Scenario ==
    [prog |-> ProgJ(prog),
     status |-> res.status, why |-> res.why,
     objs |-> [j \in 1..Len(res.objs) |-> ObjJ(res.objs[j])],
     labs |-> [j \in 1..Len(res.labs) |-> LabJ(res.labs[j])],
     comp |-> [j \in 1..Len(res.lines) |-> res.lines[j].comp],
     image |-> res.image, mem |-> MemJ(res.mem),
     open |-> MutedOverlap(res.objs \o (IF res.status = "ok" THEN <<>> ELSE PreDataObjs))]

Emit == Done => PrintT(<<"EMIT", ToJson(Scenario)>>)
\* emission restricted to programs that contain an include / a conditional opener
EmitInc == (Done /\ \E j \in 1..Len(prog) : prog[j].k = "incb") => PrintT(<<"EMIT", ToJson(Scenario)>>)
EmitCond == (Done /\ \E j \in 1..Len(prog) : prog[j].k \in OpenKinds) => PrintT(<<"EMIT", ToJson(Scenario)>>)
=============================================================================
