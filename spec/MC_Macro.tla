------------------------------ MODULE MC_Macro ------------------------------
EXTENDS Macro
Steps == { St("i4", "NONE", 0), St("ld", "ARG", 0), St("ld", "ARG", 1), St("ld", "LIT", 7), St("ld", "OP", 0), St("w12", "ARG", 0),
           St("br", "ARG", 0), St("bre", "ARG", 0), St("mv", "REG", 0), St("mvp", "OP", 0), St("mvp", "REG", 0), St("lda", "OP", 0), St("lda", "ARG", 0), St("ldx", "OP", 0), St("ld", "REG", 0), St("ld", "ARG2X", 0) }
Pats == {"num", "reg", "ind", "num2", "none", "empty", "regpp", "indn", "defn", "idx"}
V2s == {"none", "num", "reg", "any"}      \* here "none" = there is no second variant
Invs == {"lit", "fwd", "back", "reg", "ind", "lit2", "bare", "sum", "regpp", "indn", "defn", "idx"}
=============================================================================
