------------------------------ MODULE Formats ------------------------------
(***************************************************************************)
(* C16: the three machine-readable output formats as DECODING MACHINES.    *)
(*                                                                         *)
(* The harness only tokenises an output text (hex digits to numbers, no    *)
(* judgement); what the tokens mean is stated here.                        *)
(*                                                                         *)
(*  Intel HEX   a sequence of records [n, addr, typ, data, chk]            *)
(*              typ 0 data at base+addr, 1 end of file (last, exactly      *)
(*              one), 2 segment base = v*16, 4 linear base = v*65536;      *)
(*              n = Len(data); (n + addr_hi + addr_lo + typ + sum(data) +  *)
(*              chk) mod 256 = 0                                           *)
(*  hex dump    rows [addr, cols]: sixteen columns, a column is a byte or  *)
(*              -1 (nothing at that address); addr a multiple of 16        *)
(*  minhex      lines [k, a, data]: k = "addr" sets the running address to *)
(*              a, k = "data" gives bytes at the running address, which    *)
(*              starts at 0 and advances one per byte                      *)
(*                                                                         *)
(*  listing     rows [k, name, line, addr, data]: k = "file" names the     *)
(*              source file of the rows that follow; k = "row" with a line *)
(*              number shows one statement with its address and the first  *)
(*              bytes; a row without line number continues the bytes of    *)
(*              the statement above it (line = addr = -1)                  *)
(*                                                                         *)
(* Each machine folds the items into [mem, ok]: mem is a set of <<address, *)
(* byte>> pairs, ok turns FALSE on any structural fault (bad checksum,     *)
(* address given twice, record after end of file, no end of file ...).     *)
(* Describes(fmt, items, M) says the output describes exactly the memory   *)
(* contents M.  The generative part (Spec) builds small outputs item by    *)
(* item and checks properties of the machines themselves.                  *)
(***************************************************************************)
EXTENDS Integers, Sequences, FiniteSets, TLC, SequencesExt

Addrs(mem) == {p[1] : p \in mem}
SumSeq(s) == FoldLeft(LAMBDA acc, x : acc + x, 0, s)
Place(st, a0, data) ==
    LET new == {<<a0 + i - 1, data[i]>> : i \in 1..Len(data)} IN
    [st EXCEPT !.mem = @ \cup new, !.ok = @ /\ Addrs(new) \cap Addrs(st.mem) = {}]

\* ---- Intel HEX
IhxStep(st, r) ==
    LET sumok == (r.n + (r.addr \div 256) + (r.addr % 256) + r.typ + SumSeq(r.data) + r.chk) % 256 = 0
        wf == r.n = Len(r.data) /\ sumok /\ ~st.eof
              /\ \A i \in 1..Len(r.data) : r.data[i] \in 0..255
    IN  IF ~wf THEN [st EXCEPT !.ok = FALSE]
        ELSE CASE r.typ = 0 -> Place(st, st.base + r.addr, r.data)
               [] r.typ = 1 -> [st EXCEPT !.eof = TRUE, !.ok = @ /\ r.n = 0]
               [] r.typ = 2 -> IF r.n = 2 THEN [st EXCEPT !.base = (r.data[1] * 256 + r.data[2]) * 16] ELSE [st EXCEPT !.ok = FALSE]
               [] r.typ = 4 -> IF r.n = 2 THEN [st EXCEPT !.base = (r.data[1] * 256 + r.data[2]) * 65536] ELSE [st EXCEPT !.ok = FALSE]
               [] r.typ \in {3, 5} -> st
               [] OTHER -> [st EXCEPT !.ok = FALSE]
IhxInit == [mem |-> {}, ok |-> TRUE, base |-> 0, eof |-> FALSE]
IhxDecode(recs) == LET f == FoldLeft(IhxStep, IhxInit, recs) IN [mem |-> f.mem, ok |-> f.ok /\ f.eof]

\* ---- hex dump
DumpStep(st, row) ==
    IF Len(row.cols) # 16 \/ (row.addr % 16) # 0 THEN [st EXCEPT !.ok = FALSE]
    ELSE LET new == {<<row.addr + i - 1, row.cols[i]>> : i \in {j \in 1..16 : row.cols[j] # -1}} IN
         [st EXCEPT !.mem = @ \cup new, !.ok = @ /\ Addrs(new) \cap Addrs(st.mem) = {} /\ \A p \in new : p[2] \in 0..255]
DumpDecode(rows) == LET f == FoldLeft(DumpStep, [mem |-> {}, ok |-> TRUE], rows) IN [mem |-> f.mem, ok |-> f.ok]

\* ---- minhex
MinStep(st, l) ==
    IF l.k = "addr" THEN [st EXCEPT !.cur = l.a]
    ELSE [Place(st, st.cur, l.data) EXCEPT !.cur = st.cur + Len(l.data)]
MinDecode(ls) == LET f == FoldLeft(MinStep, [mem |-> {}, ok |-> TRUE, cur |-> 0], ls) IN [mem |-> f.mem, ok |-> f.ok]

\* ---- listing: the statements shown, in order of appearance, each [file, line, addr, data]
ListStep(st, r) ==
    IF r.k = "file" THEN [st EXCEPT !.file = r.name]
    ELSE IF r.line >= 0
         THEN [st EXCEPT !.stmts = Append(@, [file |-> st.file, line |-> r.line, addr |-> r.addr, data |-> r.data]),
                         !.ok = @ /\ r.addr >= 0 /\ st.file # ""]
         ELSE IF st.stmts = <<>> \/ r.addr >= 0 THEN [st EXCEPT !.ok = FALSE]
              ELSE [st EXCEPT !.stmts[Len(st.stmts)].data = @ \o r.data]
ListStatements(rows) == FoldLeft(ListStep, [stmts |-> <<>>, file |-> "", ok |-> TRUE], rows)
ListDecode(rows) ==
    LET f == ListStatements(rows) IN
    FoldLeft(LAMBDA st, x : Place(st, x.addr, x.data), [mem |-> {}, ok |-> f.ok], f.stmts)
\* the listing shows exactly the statements S (each [file, line, addr, data]), every one once
ShowsStatements(rows, S) ==
    LET f == ListStatements(rows) IN
    /\ f.ok /\ Len(f.stmts) = Len(S)
    /\ {f.stmts[i] : i \in 1..Len(f.stmts)} = {S[i] : i \in 1..Len(S)}

Decode(fmt, items) == CASE fmt = "intel_hex" -> IhxDecode(items) [] fmt = "hex" -> DumpDecode(items) [] fmt = "listing" -> ListDecode(items)
                        [] OTHER -> MinDecode(items)
Describes(fmt, items, M) == LET d == Decode(fmt, items) IN d.ok /\ d.mem = M

---------------------------------------------------------------------------
(* Generative part: small outputs built item by item.                      *)
CONSTANTS MaxItems
VARIABLES fmt, items
vars == <<fmt, items>>

Chk(n, addr, typ, data) == (256 - ((n + (addr \div 256) + (addr % 256) + typ + SumSeq(data)) % 256)) % 256
Rec(addr, typ, data) == [n |-> Len(data), addr |-> addr, typ |-> typ, data |-> data, chk |-> Chk(Len(data), addr, typ, data)]
SmallData == {<<7>>, <<7, 255>>, <<0, 1, 2>>}
IhxItems == {Rec(a, 0, d) : a \in {0, 2, 65535}, d \in SmallData} \cup {Rec(0, 1, <<>>), Rec(0, 4, <<0, 1>>), Rec(0, 2, <<16, 0>>)}
            \cup {[Rec(0, 0, <<7>>) EXCEPT !.chk = 0]}
Cols(f) == [i \in 1..16 |-> f[i]]
DumpItems == {[addr |-> a, cols |-> [i \in 1..16 |-> IF i \in S THEN 32 ELSE -1]] : a \in {0, 16, 8}, S \in {{}, {1}, {16}, 1..16}}
MinItems == {[k |-> "addr", a |-> a, data |-> <<>>] : a \in {0, 3, 4}} \cup {[k |-> "data", a |-> 0, data |-> d] : d \in SmallData}
ItemsOf(f) == CASE f = "intel_hex" -> IhxItems [] f = "hex" -> DumpItems [] OTHER -> MinItems

Init == fmt \in {"intel_hex", "hex", "minhex"} /\ items = <<>>
Next == Len(items) < MaxItems /\ \E it \in ItemsOf(fmt) : items' = Append(items, it) /\ UNCHANGED fmt
Spec == Init /\ [][Next]_vars

D == Decode(fmt, items)
\* an accepted output names every address at most once
FunctionalWhenOk == D.ok => \A p, q \in D.mem : p[1] = q[1] => p = q
\* an accepted Intel HEX output ends with its only end-of-file record, and every record has a correct checksum
IhxShape == (fmt = "intel_hex" /\ D.ok) =>
                /\ items # <<>> /\ items[Len(items)].typ = 1
                /\ \A i \in 1..(Len(items) - 1) : items[i].typ # 1
                /\ \A i \in 1..Len(items) : items[i].chk = Chk(items[i].n, items[i].addr, items[i].typ, items[i].data)
\* decoding is monotone: what an accepted prefix describes stays described
PrefixMonotone == \A k \in 0..Len(items) : Decode(fmt, SubSeq(items, 1, k)).mem \subseteq D.mem
\* the number of described addresses never exceeds the number of bytes written down
NoInventedBytes == fmt = "minhex" => Cardinality(D.mem) <= SumSeq([i \in 1..Len(items) |-> Len(items[i].data)])
=============================================================================
