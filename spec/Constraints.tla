---------------------------- MODULE Constraints ----------------------------
(***************************************************************************)
(* C12: operand value constraints.  A scenario is one constrained operand  *)
(* with one value; the specification says whether the statement is         *)
(* admissible and, if so, which value the operand's field carries.         *)
(*                                                                         *)
(*  width   the value must lie in the signed-or-unsigned range of a field  *)
(*          of w bits:  -2^(w-1) .. 2^w - 1                                *)
(*  minmax  numeric operand-code with configured min / max                 *)
(*  rel     relative address: offset = target - instruction address, or    *)
(*          target - address of the instruction's LAST byte when so        *)
(*          configured; optional min / max; the target must be a valid     *)
(*          address; the offset must fit the argument width                *)
(*  enum    numeric enumeration: the value must be a key; the field        *)
(*          carries the mapped value                                       *)
(*  zone    address operand / valid_address operand: value inside the      *)
(*          configured memory zone (GLOBAL by default)                     *)
(*  slice   sliced address: the bits above the slice equal those of the    *)
(*          instruction's own address; the field carries the low bits      *)
(* The checking machine (Check) applies the tests in the implementation's  *)
(* order; Admissible is the declarative set.  TLC checks they agree.       *)
(***************************************************************************)
EXTENDS Integers, Sequences, FiniteSets, TLC, Json

CONSTANT Scenarios
VARIABLE sc

Pow2(k) == 2 ^ k
None == -9999                   \* "not configured"
FitsField(v, w) == -(Pow2(w - 1)) <= v /\ v <= Pow2(w) - 1
Unsigned(v, w) == IF v < 0 THEN v + Pow2(w) ELSE v
InRange(v, lo, hi) == (lo = None \/ v >= lo) /\ (hi = None \/ v <= hi)
ShiftR(v, k) == v \div Pow2(k)          \* v >= 0

S(kind, w, lo, hi, v, addr, size, flag, zs, ze) ==
    [kind |-> kind, w |-> w, lo |-> lo, hi |-> hi, v |-> v, addr |-> addr, size |-> size, flag |-> flag, zs |-> zs, ze |-> ze]

\* the value the operand's field has to carry
FieldValue(x) ==
    CASE x.kind = "rel"   -> x.v - x.addr - (IF x.flag THEN x.size - 1 ELSE 0)
      [] x.kind = "slice" -> x.v % Pow2(x.w)
      [] x.kind = "enum"  -> IF x.v = x.lo THEN 1 ELSE IF x.v = x.hi THEN 2 ELSE 3      \* keys lo, hi, size map to 1, 2, 3
      [] OTHER -> x.v

\* declarative: the admissible values
Admissible(x) ==
    CASE x.kind = "width"  -> FitsField(x.v, x.w)
      [] x.kind = "minmax" -> InRange(x.v, x.lo, x.hi) /\ FitsField(x.v, x.w)
      [] x.kind = "rel"    -> /\ x.zs <= x.v /\ x.v <= x.ze
                              /\ InRange(FieldValue(x), x.lo, x.hi)
                              /\ FitsField(FieldValue(x), x.w)
      [] x.kind = "enum"   -> x.v \in {x.lo, x.hi, x.size}
      [] x.kind = "zone"   -> x.zs <= x.v /\ x.v <= x.ze /\ FitsField(x.v, x.w)
      [] x.kind = "slice"  -> /\ x.zs <= x.v /\ x.v <= x.ze
                              /\ ShiftR(x.v, x.w) = ShiftR(x.addr, x.w)
      [] OTHER -> FALSE

\* machine: the tests in implementation order, first failure wins; result = reason or "ok"
Check(x) ==
    CASE x.kind = "width"  -> IF ~FitsField(x.v, x.w) THEN "width" ELSE "ok"
      [] x.kind = "minmax" -> IF x.hi # None /\ x.v > x.hi THEN "max" ELSE IF x.lo # None /\ x.v < x.lo THEN "min"
                              ELSE IF ~FitsField(x.v, x.w) THEN "width" ELSE "ok"
      [] x.kind = "rel"    -> IF x.v > x.ze THEN "zone" ELSE IF x.v < x.zs THEN "zone"
                              ELSE LET r == FieldValue(x) IN
                                   IF x.hi # None /\ r > x.hi THEN "max" ELSE IF x.lo # None /\ r < x.lo THEN "min"
                                   ELSE IF ~FitsField(r, x.w) THEN "width" ELSE "ok"
      [] x.kind = "enum"   -> IF x.v \notin {x.lo, x.hi, x.size} THEN "enum" ELSE "ok"
      [] x.kind = "zone"   -> IF x.v > x.ze THEN "zone" ELSE IF x.v < x.zs THEN "zone"
                              ELSE IF ~FitsField(x.v, x.w) THEN "width" ELSE "ok"
      [] x.kind = "slice"  -> IF x.v > x.ze \/ x.v < x.zs THEN "zone"
                              ELSE IF ShiftR(x.addr, x.w) # ShiftR(x.v, x.w) THEN "msb" ELSE "ok"
      [] OTHER -> "internal"

Init == sc \in Scenarios
Spec == Init /\ [][FALSE]_sc

RejectIffInadmissible == (Check(sc) = "ok") <=> Admissible(sc)
\* the admissible set of a width is exactly -2^(w-1) .. 2^w - 1: 2^w + 2^(w-1) values
WidthRange == (sc.kind = "width" /\ sc.w <= 12) => Cardinality({v \in (-(Pow2(sc.w)) - 2)..(Pow2(sc.w) + 2) : FitsField(v, sc.w)}) = Pow2(sc.w) + Pow2(sc.w - 1)
FieldFits == (Admissible(sc) /\ sc.kind # "enum") => FitsField(FieldValue(sc), sc.w)

Emit == PrintT(<<"EMIT", ToJson([s |-> sc, ok |-> Admissible(sc), f |-> IF Admissible(sc) THEN FieldValue(sc) ELSE None])>>)
=============================================================================
