------------------------------ MODULE BigExpr ------------------------------
(***************************************************************************)
(* C07 with values beyond TLC's 32-bit integers: "division yields the real *)
(* quotient and the final result is truncated toward zero" for 64-bit      *)
(* literals and their products.                                            *)
(*                                                                         *)
(* Naturals are limb sequences in base 2^15, least significant first, no   *)
(* trailing zero limb (zero is the empty sequence); integers add a sign;   *)
(* rationals are [neg, n, d] with d > 0 and are never normalised, so the   *)
(* specification needs addition, subtraction, multiplication and           *)
(* comparison only - no division: a quotient is a pair, and the            *)
(* implementation's final integer v is CHECKED against the exact rational  *)
(* n/d by   |v| * d <= |n| < (|v| + 1) * d   with the sign of n.           *)
(*                                                                         *)
(* Records [toks, v, ok] come from the real parser/evaluator on seeded     *)
(* random well-formed expressions over + - * / ( ) and unary minus; the    *)
(* descent machine below (same shape as Expr.tla, restricted to these      *)
(* operators) determines the structure independently of the harness.       *)
(***************************************************************************)
EXTENDS Integers, Sequences, FiniteSets, TLC, Json, IOUtils, SequencesExt

Recs == JsonDeserialize(IOEnv.TRACE_FILE)
VARIABLE rid

B == 32768

Norm(a) == LET nz == {i \in 1..Len(a) : a[i] # 0} IN
           IF nz = {} THEN <<>> ELSE SubSeq(a, 1, CHOOSE i \in nz : \A j \in nz : j <= i)
Limb(a, i) == IF i <= Len(a) THEN a[i] ELSE 0
MaxL(a, b) == IF Len(a) >= Len(b) THEN Len(a) ELSE Len(b)

RECURSIVE AddC(_, _, _, _)
AddC(a, b, i, c) == IF i > MaxL(a, b) THEN (IF c = 0 THEN <<>> ELSE <<c>>)
                    ELSE LET t == Limb(a, i) + Limb(b, i) + c IN <<t % B>> \o AddC(a, b, i + 1, t \div B)
AddN(a, b) == Norm(AddC(a, b, 1, 0))

\* comparison: -1, 0, 1
RECURSIVE CmpFrom(_, _, _)
CmpFrom(a, b, i) == IF i = 0 THEN 0 ELSE IF a[i] < b[i] THEN -1 ELSE IF a[i] > b[i] THEN 1 ELSE CmpFrom(a, b, i - 1)
CmpN(a, b) == IF Len(a) < Len(b) THEN -1 ELSE IF Len(a) > Len(b) THEN 1 ELSE CmpFrom(a, b, Len(a))

RECURSIVE SubC(_, _, _, _)
SubC(a, b, i, br) == IF i > Len(a) THEN <<>>
                     ELSE LET t == a[i] - Limb(b, i) - br IN
                          IF t < 0 THEN <<t + B>> \o SubC(a, b, i + 1, 1) ELSE <<t>> \o SubC(a, b, i + 1, 0)
SubN(a, b) == Norm(SubC(a, b, 1, 0))          \* requires a >= b

RECURSIVE MulLimb(_, _, _, _)
MulLimb(a, m, i, c) == IF i > Len(a) THEN (IF c = 0 THEN <<>> ELSE <<c>>)
                       ELSE LET t == a[i] * m + c IN <<t % B>> \o MulLimb(a, m, i + 1, t \div B)
Shift(a, k) == IF a = <<>> THEN <<>> ELSE [i \in 1..k |-> 0] \o a
RECURSIVE MulFrom(_, _, _)
MulFrom(a, b, j) == IF j > Len(b) THEN <<>> ELSE AddN(Shift(Norm(MulLimb(a, b[j], 1, 0)), j - 1), MulFrom(a, b, j + 1))
MulN(a, b) == IF a = <<>> \/ b = <<>> THEN <<>> ELSE MulFrom(a, b, 1)

\* rationals
Q(neg, n, d) == [neg |-> neg /\ n # <<>>, n |-> n, d |-> d]
Err == [neg |-> FALSE, n |-> <<>>, d |-> <<>>]         \* d = 0 marks "no value"
IsErr(x) == x.d = <<>>
One == <<1>>
SignedAdd(an, a, bn, b) ==     \* (sign, magnitude) + (sign, magnitude)
    IF an = bn THEN [neg |-> an, m |-> AddN(a, b)]
    ELSE IF CmpN(a, b) >= 0 THEN [neg |-> an, m |-> SubN(a, b)] ELSE [neg |-> bn, m |-> SubN(b, a)]
AddQ(x, y) == LET s == SignedAdd(x.neg, MulN(x.n, y.d), y.neg, MulN(y.n, x.d)) IN Q(s.neg, s.m, MulN(x.d, y.d))
NegQ(x) == Q(~x.neg, x.n, x.d)
MulQ(x, y) == Q(x.neg # y.neg, MulN(x.n, y.n), MulN(x.d, y.d))
DivQ(x, y) == IF y.n = <<>> THEN Err ELSE Q(x.neg # y.neg, MulN(x.n, y.d), MulN(x.d, y.n))
Apply(op, x, y) == IF IsErr(x) \/ IsErr(y) THEN Err
                   ELSE CASE op = "+" -> AddQ(x, y) [] op = "-" -> AddQ(x, NegQ(y)) [] op = "*" -> MulQ(x, y) [] op = "/" -> DivQ(x, y)
                          [] OTHER -> Err

\* descent machine (levels: 2 = + -, 3 = * /, 4 = unary / primary)
Level(t) == CASE t \in {"+", "-"} -> 2 [] t \in {"*", "/"} -> 3 [] OTHER -> 9
Tok(q, i) == IF i <= Len(q) THEN q[i].t ELSE "end"
R(v, nx) == [v |-> v, nx |-> nx]
RECURSIVE P4(_, _), PE(_, _, _), PLoop(_, _, _, _)
P4(q, i) ==
    LET t == Tok(q, i) IN
    CASE t = "n" -> R(Q(FALSE, q[i].m, One), i + 1)
      [] t = "-" -> LET r == P4(q, i + 1) IN R(IF IsErr(r.v) THEN Err ELSE NegQ(r.v), r.nx)
      [] t = "(" -> LET r == PE(q, i + 1, 2) IN IF ~IsErr(r.v) /\ Tok(q, r.nx) = ")" THEN R(r.v, r.nx + 1) ELSE R(Err, r.nx)
      [] OTHER -> R(Err, i)
PE(q, i, lv) == IF lv = 4 THEN P4(q, i)
                ELSE LET l == PE(q, i, lv + 1) IN IF IsErr(l.v) THEN l ELSE PLoop(q, l.v, l.nx, lv)
PLoop(q, acc, i, lv) ==
    IF Level(Tok(q, i)) = lv
    THEN LET r == PE(q, i + 1, lv + 1) IN IF IsErr(r.v) THEN r ELSE PLoop(q, Apply(Tok(q, i), acc, r.v), r.nx, lv)
    ELSE R(acc, i)
Value(q) == LET r == PE(q, 1, 2) IN IF ~IsErr(r.v) /\ r.nx = Len(q) + 1 THEN r.v ELSE Err

\* v = [neg, m] is n/d truncated toward zero
TruncOk(x, v) ==
    /\ CmpN(MulN(v.m, x.d), x.n) <= 0
    /\ CmpN(x.n, MulN(AddN(v.m, One), x.d)) < 0
    /\ (v.m # <<>> => v.neg = x.neg)

RecOk(r) == LET x == Value(r.toks) IN
            IF IsErr(x) THEN ~r.ok ELSE r.ok /\ TruncOk(x, r.v)

Init == rid \in 1..Len(Recs)
Spec == Init /\ [][FALSE]_rid
Accepted == RecOk(Recs[rid]) => PrintT(<<"ACC", ToJson([t |-> rid])>>)
=============================================================================
