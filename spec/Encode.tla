------------------------------- MODULE Encode -------------------------------
(***************************************************************************)
(* C01 (b): from an instruction variant's configuration and the matched    *)
(* operands to the ordered field list, then Bits!Flat.                     *)
(*                                                                         *)
(* layout: [defEn, opv, opw, opEn, sfx, ops, revArg, revCode]              *)
(*   opEn / aen = "def" means "not configured: use the default endianness" *)
(*   sfx = [p, v, w]   opcode suffix present?                              *)
(*   ops[k] = [c, cv, cw, a, av, aw, al, aen]                              *)
(*            c in none/pre/suf: operand code and its position             *)
(*            a in none/arg/rel/relend/slice: operand argument; for arg    *)
(*            the operand's value IS the field value av; for the address-  *)
(*            relative kinds the statement names a TARGET address and the  *)
(*            field carries target - own address (rel), target - address   *)
(*            of the statement's last byte (relend) or the low aw bits of  *)
(*            a target in the statement's own 2^aw page (slice)            *)
(* Documented order: prefix-positioned operand codes, opcode, suffix-      *)
(* positioned operand codes, opcode suffix, arguments.  Within the prefix  *)
(* group the first operand's code is nearest to the opcode (pinned to the  *)
(* behaviour of the pinned commit, see DESIGN.md 3.2).  reverse_bytecode_  *)
(* order reverses both code groups, reverse_argument_order the arguments.  *)
(* Operand codes are always big-endian and never byte-aligned.             *)
(***************************************************************************)
EXTENDS Bits, Json, SequencesExt

CONSTANTS OpAlphabet,    \* set of operand records
          Bases,         \* set of base layouts (ops = <<>>)
          MaxOps

VARIABLE lay

O(c, cv, cw, a, av, aw, al, aen) == [c |-> c, cv |-> cv, cw |-> cw, a |-> a, av |-> av, aw |-> aw, al |-> al, aen |-> aen]
Base(defEn, opv, opw, opEn, sp, sv, sw, revArg, revCode) ==
    [defEn |-> defEn, opv |-> opv, opw |-> opw, opEn |-> opEn, sfx |-> [p |-> sp, v |-> sv, w |-> sw],
     ops |-> <<>>, revArg |-> revArg, revCode |-> revCode]

En(e, d) == IF e = "def" THEN d ELSE e

CodeF(o) == F(o.cv, o.cw, FALSE, "big")
ArgF(o, d) == F(o.av, o.aw, o.al, En(o.aen, d))

FieldList(l) ==
    LET pre0 == Reverse(SelectSeq(l.ops, LAMBDA o : o.c = "pre"))      \* first operand nearest to the opcode
        suf0 == SelectSeq(l.ops, LAMBDA o : o.c = "suf")
        pre  == IF l.revCode THEN Reverse(pre0) ELSE pre0
        suf  == IF l.revCode THEN Reverse(suf0) ELSE suf0
        arg0 == SelectSeq(l.ops, LAMBDA o : o.a # "none")
        args == IF l.revArg THEN Reverse(arg0) ELSE arg0
        opc  == F(l.opv, l.opw, FALSE, En(l.opEn, l.defEn))
        sfx  == IF l.sfx.p THEN <<F(l.sfx.v, l.sfx.w, FALSE, En(l.opEn, l.defEn))>> ELSE <<>>
    IN  [k \in 1..Len(pre) |-> CodeF(pre[k])] \o <<opc>> \o [k \in 1..Len(suf) |-> CodeF(suf[k])] \o sfx
        \o [k \in 1..Len(args) |-> ArgF(args[k], l.defEn)]

Bytes(l) == Flat(FieldList(l))

Init == lay \in Bases
Next == Len(lay.ops) < MaxOps /\ \E o \in OpAlphabet : lay' = [lay EXCEPT !.ops = Append(@, o)]
Spec == Init /\ [][Next]_lay

\* the groups appear in the documented order
NPre(l) == Len(SelectSeq(l.ops, LAMBDA o : o.c = "pre"))
NSuf(l) == Len(SelectSeq(l.ops, LAMBDA o : o.c = "suf"))
NArg(l) == Len(SelectSeq(l.ops, LAMBDA o : o.a # "none"))
GroupsInOrder ==
    LET fl == FieldList(lay) IN
    /\ Len(fl) = NPre(lay) + 1 + NSuf(lay) + (IF lay.sfx.p THEN 1 ELSE 0) + NArg(lay)
    /\ fl[NPre(lay) + 1] = F(lay.opv, lay.opw, FALSE, En(lay.opEn, lay.defEn))
\* each reverse option reverses exactly its own group and leaves every other field where it was
ReverseTouchesOnlyItsGroup ==
    LET fl == FieldList(lay)
        fa == FieldList([lay EXCEPT !.revArg = ~@])
        fc == FieldList([lay EXCEPT !.revCode = ~@])
        na == NArg(lay)
        hd == Len(fl) - na
    IN  /\ SubSeq(fa, 1, hd) = SubSeq(fl, 1, hd)
        /\ SubSeq(fa, hd + 1, Len(fl)) = Reverse(SubSeq(fl, hd + 1, Len(fl)))
        /\ SubSeq(fc, hd + 1, Len(fl)) = SubSeq(fl, hd + 1, Len(fl))
        /\ SubSeq(fc, 1, NPre(lay)) = Reverse(SubSeq(fl, 1, NPre(lay)))
        /\ fc[NPre(lay) + 1] = fl[NPre(lay) + 1]
        /\ SubSeq(fc, NPre(lay) + 2, NPre(lay) + 1 + NSuf(lay)) = Reverse(SubSeq(fl, NPre(lay) + 2, NPre(lay) + 1 + NSuf(lay)))
\* address-relative operands: the target the statement has to name at a given own address so that the field carries av,
\* and back; the bytes (Bytes) are a function of the layout alone, whatever the address
Placements == <<5000, 9041>>
TargetOf(o, addr, size) ==
    CASE o.a = "rel"    -> addr + o.av
      [] o.a = "relend" -> addr + (size - 1) + o.av
      [] o.a = "slice"  -> (addr \div Pow2(o.aw)) * Pow2(o.aw) + Unsigned(o.av, o.aw)
      [] OTHER -> o.av
FieldOf(o, t, addr, size) ==
    CASE o.a = "rel"    -> t - addr
      [] o.a = "relend" -> t - (addr + size - 1)
      [] o.a = "slice"  -> t % Pow2(o.aw)
      [] OTHER -> t
AddressRelativeRoundTrip ==
    \A p \in 1..Len(Placements), k \in 1..Len(lay.ops) :
        LET o == lay.ops[k]
            n == Len(Bytes(lay))
            t == TargetOf(o, Placements[p], n)
        IN  /\ Unsigned(FieldOf(o, t, Placements[p], n), o.aw) = Unsigned(o.av, o.aw)
            /\ o.a = "slice" => t \div Pow2(o.aw) = Placements[p] \div Pow2(o.aw)
SizeIsReserved == Len(Bytes(lay)) = ReservedBytes(FieldList(lay))

LayJ == [defEn |-> lay.defEn, opv |-> lay.opv, opw |-> lay.opw, opEn |-> lay.opEn,
         sfx |-> <<IF lay.sfx.p THEN 1 ELSE 0, lay.sfx.v, lay.sfx.w>>,
         revArg |-> lay.revArg, revCode |-> lay.revCode,
         ops |-> [k \in 1..Len(lay.ops) |->
                    <<lay.ops[k].c, lay.ops[k].cv, lay.ops[k].cw, lay.ops[k].a, lay.ops[k].av, lay.ops[k].aw,
                      IF lay.ops[k].al THEN 1 ELSE 0, lay.ops[k].aen>>]]
Targets == [p \in 1..Len(Placements) |-> [k \in 1..Len(lay.ops) |-> TargetOf(lay.ops[k], Placements[p], Len(Bytes(lay)))]]
Emit == PrintT(<<"EMIT", ToJson([l |-> LayJ, b |-> Bytes(lay), pl |-> Placements, t |-> Targets])>>)
=============================================================================
