--------------------------- MODULE MC_Constraints ---------------------------
EXTENDS Constraints
Near(c, d) == (c - d)..(c + d)
WidthVals(w) == IF w <= 9 THEN (-(Pow2(w)) - 2)..(Pow2(w) + 2)
                ELSE Near(-(Pow2(w)), 2) \cup Near(-(Pow2(w - 1)), 2) \cup Near(0, 2) \cup Near(Pow2(w - 1), 2) \cup Near(Pow2(w), 2)
ScWidth(W) == UNION {{S("width", w, None, None, v, 0, 0, FALSE, 0, 0) : v \in WidthVals(w)} : w \in W}
ScMinMax == {S("minmax", 4, lo, hi, v, 0, 0, FALSE, 0, 0) :
                lo \in {-3, 0, 2}, hi \in {0, 2, 5, 7}, v \in -10..17}
\* relative offsets: instruction at 20, size 2 or 3, 8-bit and 4-bit offset fields, GLOBAL = 0..65535
ScRel == {S("rel", w, lo, hi, t, 20, sz, fe, 0, 65535) :
             w \in {8}, lo \in {-4, None}, hi \in {3, None}, t \in 10..30, sz \in {2, 3}, fe \in BOOLEAN}
         \cup {S("rel", 4, None, None, t, 20, 2, fe, 0, 65535) : t \in 8..40, fe \in BOOLEAN}
         \cup {S("rel", 8, None, None, t, 200, sz, fe, 0, 65535) : t \in (Near(200 - 128, 4) \cup Near(200 + 255, 4) \cup Near(200 + 127, 3)), sz \in {2, 3}, fe \in BOOLEAN}
\* two enumerations with different key sets ({2, 5, 9} and {3, 6, 8}); the generated operand has the same name in both
ScEnum == {S("enum", 8, 2, 5, v, 0, 9, FALSE, 0, 0) : v \in 0..11} \cup {S("enum", 8, 3, 6, v, 0, 8, FALSE, 0, 0) : v \in 0..11}
\* zone z1 = 8..11 in a default GLOBAL; and a redefined GLOBAL 4..40 (valid_address / address default zone)
ScZone == {S("zone", 8, 1, None, v, 0, 0, FALSE, 8, 11) : v \in 5..14}
          \cup {S("zone", 8, 2, None, v, 0, 0, FALSE, 4, 40) : v \in (0..7 \cup 37..43)}
          \cup {S("zone", 8, 3, None, v, 0, 0, FALSE, 4, 40) : v \in (0..7 \cup 37..43)}
          \* lo = 4 / 5: the valid_address flag on an indirect ([v]) and on a deferred ([[v]]) numeric operand
          \cup {S("zone", 8, k, None, v, 0, 0, FALSE, 4, 40) : k \in {4, 5}, v \in (0..7 \cup 37..43)}
ScSlice == {S("slice", 8, None, None, v, a, 3, FALSE, 0, 65535) : a \in {250, 253, 254, 255, 256, 300}, v \in (Near(256, 8) \cup Near(512, 3) \cup {0, 255, 300, 767})}
           \cup {S("slice", 4, None, None, v, a, 2, FALSE, 0, 65535) : a \in {14, 15, 16, 31, 33}, v \in 0..50}
ScQuick == ScWidth({1, 2, 3, 4, 5, 7, 8, 12}) \cup ScMinMax \cup ScRel \cup ScEnum \cup ScZone \cup ScSlice
ScThorough == ScWidth({1, 2, 3, 4, 5, 6, 7, 8, 9, 12, 16, 20}) \cup ScMinMax \cup ScRel \cup ScEnum \cup ScZone \cup ScSlice
=============================================================================
