-------------------------------- MODULE Data --------------------------------
(***************************************************************************)
(* C11: data and fill directives.                                          *)
(*                                                                         *)
(* Integers of any size are [neg, mag]: sign and magnitude as a sequence   *)
(* of bytes, least significant first (TLC integers are 32 bit; .8byte      *)
(* values are 64 bit).  Reduce(x, w) is x modulo 2^(8w) as w bytes, least  *)
(* significant first: truncate the magnitude, and for negative x take the  *)
(* two's complement (invert, add one with carry).                          *)
(*                                                                         *)
(* Scenarios:                                                              *)
(*  num   directive width w (1, 2, 4, 8), byte order, a list of values     *)
(*  str   a quoted string of abstract characters [code]: the harness       *)
(*        spells each character in source form (plain or escape), the      *)
(*        specification knows the code it stands for; form = byte / cstr / *)
(*        asciiz / embedded; terminator                                    *)
(*  fill  .fill n, v / .zero n / .zerountil a at current address c         *)
(***************************************************************************)
EXTENDS Integers, Sequences, FiniteSets, TLC, Json, SequencesExt

CONSTANT Scenarios
VARIABLE sc

V(neg, mag) == [neg |-> neg, mag |-> mag]

PadTo(mag, w) == IF Len(mag) >= w THEN SubSeq(mag, 1, w) ELSE mag \o [i \in 1..(w - Len(mag)) |-> 0]
IsZero(mag) == \A i \in 1..Len(mag) : mag[i] = 0
RECURSIVE AddOne(_, _)
AddOne(bytes, i) ==      \* bytes + 1 modulo 256^Len, starting at position i
    IF i > Len(bytes) THEN bytes
    ELSE IF bytes[i] = 255 THEN AddOne([bytes EXCEPT ![i] = 0], i + 1) ELSE [bytes EXCEPT ![i] = @ + 1]
Reduce(x, w) ==
    LET t == PadTo(x.mag, w) IN
    IF ~x.neg \/ IsZero(t) THEN t
    ELSE AddOne([i \in 1..w |-> 255 - t[i]], 1)

\* bytes of one value in the directive's byte order
ValueBytes(x, w, en) == IF en = "little" THEN Reduce(x, w) ELSE Reverse(Reduce(x, w))

RECURSIVE Concat(_)
Concat(ss) == IF ss = <<>> THEN <<>> ELSE Head(ss) \o Concat(Tail(ss))

Expected(s) ==
    CASE s.kind = "num"  -> Concat([i \in 1..Len(s.vals) |-> ValueBytes(s.vals[i], s.w, s.en)])
      [] s.kind = "str"  -> [i \in 1..Len(s.chars) |-> s.chars[i] % 256] \o (IF s.form \in {"cstr", "asciiz", "embedded"} THEN <<s.term>> ELSE <<>>)
      [] s.kind = "fill" ->
            CASE s.form = "fill" -> [i \in 1..s.n |-> ((s.v % 256) + 256) % 256]
              [] s.form = "zero" -> [i \in 1..s.n |-> 0]
              [] OTHER -> IF s.n >= s.cur THEN [i \in 1..(s.n - s.cur + 1) |-> 0] ELSE <<>>       \* zerountil n from address cur
      [] OTHER -> <<>>

Init == sc \in Scenarios
Spec == Init /\ [][FALSE]_sc

\* design properties
LengthIsWidthTimesCount == sc.kind = "num" => Len(Expected(sc)) = sc.w * Len(sc.vals)
\* reduction modulo 2^(8w): bytes beyond the width never matter, and x and x + 2^(8w) * k reduce alike
HighBytesIrrelevant ==
    sc.kind = "num" => \A i \in 1..Len(sc.vals) :
        ~sc.vals[i].neg => Reduce(sc.vals[i], sc.w) = Reduce(V(FALSE, PadTo(sc.vals[i].mag, sc.w)), sc.w)
\* -x and x sum to zero modulo 2^(8w)
RECURSIVE AddBytes(_, _, _, _)
AddBytes(a, b, i, carry) ==
    IF i > Len(a) THEN <<>>
    ELSE LET t == a[i] + b[i] + carry IN <<t % 256>> \o AddBytes(a, b, i + 1, t \div 256)
NegationIsComplement ==
    sc.kind = "num" => \A i \in 1..Len(sc.vals) :
        LET x == sc.vals[i] IN
        IsZero(AddBytes(Reduce(V(TRUE, x.mag), sc.w), Reduce(V(FALSE, x.mag), sc.w), 1, 0))
ZeroUntilInclusive ==
    (sc.kind = "fill" /\ sc.form = "zuntil") => Len(Expected(sc)) = (IF sc.n >= sc.cur THEN sc.n - sc.cur + 1 ELSE 0)

Emit == PrintT(<<"EMIT", ToJson([s |-> sc, b |-> Expected(sc)])>>)
=============================================================================
