------------------------------ MODULE MC_Config ------------------------------
EXTENDS Config
Shapes == {"minimal", "registers", "macros", "zones", "predefined", "json"}
ScDef == { S("def", sh, f, NoV, NoV, "", "same") : sh \in Shapes, f \in Faults \cup {"none"} }
Nums == {0, 1, 2, 3, 4, 9, 10, 11}
Pres == { Final, PreRank("b", 1), PreRank("b", 2), PreRank("rc", 1), PreRank("a", 1) }
ScMinVerFull == { S("minver", "minimal", "none", Ver(<<a, b, c>>, p), NoV, "", "same") : a \in {0, 1}, b \in Nums, c \in Nums, p \in Pres }
ScMinVer2 == { S("minver", "minimal", "none", Ver(<<a, b>>, p), NoV, "", "same") : a \in {0, 1}, b \in Nums, p \in {Final, PreRank("rc", 1)} }
ScMinVerQuick == { x \in ScMinVerFull : x.v.rel[3] \in {0, 2, 3, 4, 10} /\ x.v.rel[2] \in {0, 2, 3, 4, 10} }
IsaVs == { Ver(<<1, 2, 3>>, Final), Ver(<<0, 10, 0>>, Final), Ver(<<1, 0, 0>>, PreRank("b", 2)) }
ReqVs == { Ver(<<1, 2, 3>>, Final), Ver(<<1, 2, 10>>, Final), Ver(<<1, 10, 0>>, Final), Ver(<<0, 9, 9>>, Final), Ver(<<0, 10>>, Final),
           Ver(<<1, 0, 0>>, Final), Ver(<<1, 0, 0>>, PreRank("b", 1)), Ver(<<1, 0, 0>>, PreRank("b", 2)), Ver(<<1, 0, 0>>, PreRank("rc", 1)), Ver(<<2>>, Final) }
ReqNames == {"same", "other", "prefix", "suffix", "infix", "longer", "empty"}
ScRequire == { S("require", "minimal", "none", v, iv, op, nm) : v \in ReqVs, iv \in IsaVs, op \in {"==", ">=", "<=", ">", "<"}, nm \in {"same", "other"} }
             \cup { S("require", "minimal", "none", v, iv, op, nm) : v \in {Ver(<<1, 0, 0>>, Final)}, iv \in IsaVs, op \in {">=", "<"}, nm \in ReqNames }
             \cup { S("require", "minimal", "none", NoV, iv, "", nm) : iv \in IsaVs, nm \in ReqNames }
ScRequire2 == { S("require2", "minimal", "none", v, iv, op, nm) : v \in {Ver(<<1, 2, 3>>, Final), Ver(<<2>>, Final), Ver(<<0, 9, 9>>, Final)}, iv \in IsaVs,
                                                                     op \in {"==", ">=", "<"}, nm \in {"same", "other", "prefix"} }
ScRequireDef == { S("requiredef", "minimal", "none", NoV, NoV, "", nm) : nm \in {"same", "prefix", "other", "longer"} }
ScQuick == ScRequireDef \cup ScRequire2 \cup ScDef \cup ScMinVerQuick \cup ScMinVer2 \cup ScRequire
ScThorough == ScRequireDef \cup ScRequire2 \cup ScDef \cup ScMinVerFull \cup ScMinVer2 \cup ScRequire
=============================================================================
