------------------------------ MODULE Include ------------------------------
(***************************************************************************)
(* File lookup and the include graph (C17 rejections, C15 order            *)
(* independence).                                                          *)
(*                                                                         *)
(* A configuration is: for every library file the set of directories that  *)
(* hold a copy, for every file (and the main file) the sequence of names   *)
(* it includes, the set of extra directories passed with -I, and whether   *)
(* one of them is passed twice under two spellings.  The main file lives   *)
(* in directory d0, which is always searched.  skipmain: the LAST include  *)
(* line of the main file stands in a conditional block that is not         *)
(* selected - it contributes nothing and is not even looked up, whether    *)
(* the file it names is missing, ambiguous or already included.            *)
(* backedge: the first library file ends with an #include of the main file *)
(* (whose own include lines then stand behind an #ifndef guard, so nothing *)
(* else would stop the recursion): the main file is already being          *)
(* assembled, so this is a second inclusion and is rejected.               *)
(*                                                                         *)
(* The implementation iterates over a SET of search directories, so the    *)
(* order is arbitrary: LocateLoop is that loop for one order, LocateDecl   *)
(* the order-free statement; OrderIndependent says they agree for every    *)
(* order, hence Cardinality(outcomes) = 1.                                 *)
(***************************************************************************)
EXTENDS Integers, Sequences, FiniteSets, TLC, Json, SequencesExt, FiniteSetsExt

CONSTANTS Files,        \* library file names
          ExtraDirs     \* directories that may be passed with -I (d0 is implicit)

Dirs == ExtraDirs \cup {"d0"}
Nodes == Files \cup {"main"}
IncSeqs == {<<>>} \cup {<<f>> : f \in Files} \cup {<<f, g>> : f \in Files, g \in Files}

VARIABLES place,    \* [Files -> SUBSET Dirs]   where copies of each file exist
          incs,     \* [Nodes -> IncSeqs]       the include lines of each file, in order
          passed,   \* SUBSET ExtraDirs         -I directories
          dup,      \* BOOLEAN                  one passed directory is given twice under another spelling
          skipmain, \* BOOLEAN                  main's last include line is inside an unselected conditional block
          backedge, \* BOOLEAN                  the first library file includes the main file at its end
          done
vars == <<place, incs, passed, dup, skipmain, backedge, done>>

Search == passed \cup {"d0"}

\* order-free statement of the lookup
PlaceOf(name) == IF name = "main" THEN {"d0"} ELSE place[name]
LocateDecl(name) ==
    LET cands == {d \in Search : d \in PlaceOf(name)} IN
    IF cands = {} THEN [st |-> "missing", dir |-> ""]
    ELSE IF Cardinality(cands) > 1 THEN [st |-> "ambiguous", dir |-> ""]
    ELSE [st |-> "found", dir |-> CHOOSE d \in cands : TRUE]

\* the implementation's loop over one iteration order of the search set
RECURSIVE LocateLoop(_, _, _, _)
LocateLoop(name, ord, j, found) ==
    IF j > Len(ord) THEN (IF found = "" THEN [st |-> "missing", dir |-> ""] ELSE [st |-> "found", dir |-> found])
    ELSE IF ord[j] \in place[name]
         THEN IF found = "" THEN LocateLoop(name, ord, j + 1, ord[j]) ELSE [st |-> "ambiguous", dir |-> ""]
         ELSE LocateLoop(name, ord, j + 1, found)

Orders == {o \in [1..Cardinality(Search) -> Search] : \A x, y \in DOMAIN o : x # y => o[x] # o[y]}

OrderIndependent == \A name \in Files : \A o \in Orders : LocateLoop(name, o, 1, "") = LocateDecl(name)

\* Walk the include graph from a file; used is the run-wide set of file paths already opened.
\* w: [st, used, out]   out = sequence of file names in the order their own text is assembled
RECURSIVE Walk(_, _), WalkIncs(_, _, _)
EffIncs(file) == IF file = "main" /\ skipmain /\ incs[file] # <<>> THEN Front(incs[file])
                 ELSE IF file = "A" /\ backedge THEN incs[file] \o <<"main">> ELSE incs[file]
Walk(file, w) ==
    \* a file assembles its own marker first, then its includes in order
    WalkIncs(EffIncs(file), 1, [w EXCEPT !.out = Append(@, file)])
WalkIncs(seq, j, w) ==
    IF w.st # "ok" \/ j > Len(seq) THEN w
    ELSE LET name == seq[j]
             loc == LocateDecl(name)
             path == <<loc.dir, name>>
         IN  IF loc.st # "found" THEN [w EXCEPT !.st = loc.st]
             ELSE IF path \in w.used THEN [w EXCEPT !.st = "twice"]
             ELSE WalkIncs(seq, j + 1, Walk(name, [w EXCEPT !.used = @ \cup {path}]))

Outcome == Walk("main", [st |-> "ok", used |-> {<<"d0", "main">>}, out |-> <<>>])

Init == /\ place \in [Files -> SUBSET Dirs]
        /\ incs \in [Nodes -> IncSeqs]
        /\ passed \in SUBSET ExtraDirs
        /\ dup \in BOOLEAN
        /\ (dup => passed # {})
        /\ skipmain \in BOOLEAN
        /\ backedge \in BOOLEAN
        /\ (backedge => ~skipmain /\ ~dup)
        /\ done = FALSE
Next == ~done /\ done' = TRUE /\ UNCHANGED <<place, incs, passed, dup, skipmain, backedge>>
Spec == Init /\ [][Next]_vars

\* design properties
TwiceNeverAccepted ==
    Outcome.st = "ok" => \A x, y \in 1..Len(Outcome.out) : x # y => Outcome.out[x] # Outcome.out[y]
AcceptedMeansAllUnique ==
    Outcome.st = "ok" => \A n \in Files : (\E x \in 1..Len(Outcome.out) : Outcome.out[x] = n) => LocateDecl(n).st = "found"

DirOrder == <<"d0", "d1", "d2", "d3">>
AsSeq(S) == SelectSeq(DirOrder, LAMBDA d : d \in S)
Scenario == [place |-> [f \in Files |-> AsSeq(place[f])],
             incs |-> incs, passed |-> AsSeq(passed), dup |-> dup, skipmain |-> skipmain, backedge |-> backedge,
             st |-> Outcome.st, out |-> Outcome.out]
\* only configurations in which main includes something are worth replaying
Emit == (done /\ incs["main"] # <<>>) => PrintT(<<"EMIT", ToJson(Scenario)>>)
=============================================================================
