------------------------------ MODULE MC_Match ------------------------------
EXTENDS Match
\* operand sets: alternatives in DEFINITION order (deliberately not in rank order); ids are unique per set catalogue
SA == << A(17, "numeric", FALSE, FALSE), A(18, "register", FALSE, FALSE), A(19, "enumeration", FALSE, FALSE) >>
SB == << A(33, "deferred_numeric", FALSE, FALSE), A(34, "indirect_numeric", FALSE, FALSE),
         A(35, "indirect_indexed_register", FALSE, FALSE), A(36, "indirect_register", FALSE, FALSE) >>
SC == << A(49, "indirect_indexed_register", FALSE, FALSE), A(50, "indirect_register", TRUE, FALSE) >>
SD == << A(65, "numeric_bytecode", FALSE, FALSE), A(66, "relative_address", FALSE, FALSE), A(67, "address", FALSE, FALSE), A(68, "numeric", FALSE, FALSE) >>
SE == << A(81, "numeric", FALSE, FALSE), A(82, "register", FALSE, FALSE), A(83, "indexed_register", FALSE, FALSE) >>
SF == << A(97, "numeric", FALSE, FALSE), A(98, "relative_address", FALSE, TRUE) >>
SG == << A(113, "register", FALSE, FALSE), A(114, "register", FALSE, FALSE) >>
SH == << A(129, "numeric", FALSE, FALSE), A(130, "enumeration0", FALSE, FALSE) >>
SI == << A(145, "indirect_register", FALSE, FALSE), A(146, "indirect_indexed_register", FALSE, FALSE) >>
\* same-type alternatives that accept the same text: definition order decides
SJ == << A(161, "indirect_register", FALSE, FALSE), A(162, "indirect_register", TRUE, FALSE) >>
SK == << A(178, "numeric", FALSE, FALSE), A(177, "numeric", FALSE, FALSE), A(179, "register", FALSE, FALSE) >>
SL == << A(193, "numeric", FALSE, FALSE), A(194, "register", FALSE, FALSE), A(195, "register_pp", FALSE, FALSE), A(196, "register_at", FALSE, FALSE),
         A(197, "register_prepp", FALSE, FALSE) >>
SR == << A(198, "register_prepp", FALSE, FALSE), A(199, "register", FALSE, FALSE) >>
SM == << A(241, "numeric", FALSE, FALSE), A(242, "indirect_register_pre", FALSE, FALSE), A(243, "indirect_register", FALSE, FALSE) >>
SN == << A(225, "numeric_va", FALSE, FALSE), A(226, "register", FALSE, FALSE) >>
SO == << A(249, "numeric16", FALSE, FALSE), A(250, "register", FALSE, FALSE) >>
SQ == << A(233, "numeric", FALSE, FALSE), A(234, "indexed_register2", FALSE, FALSE), A(235, "register", FALSE, FALSE) >>
\* a numeric operand code on its own (0..255): 300 selects it and is then out of range
SP == << A(251, "numeric_bytecode", FALSE, FALSE) >>
Sets1 == {SA, SB, SC, SD, SE, SF, SG, SH, SI, SJ, SK, SL, SM, SN, SO, SP, SQ, SR}
V(spec, sets, dis) == [spec |-> spec, sets |-> sets, dis |-> dis]
SpReg == << A(200, "register", FALSE, FALSE) >>
SpNum == << A(201, "numeric", FALSE, FALSE) >>
SpInd == << A(202, "indirect_register", TRUE, FALSE) >>
SpEmpty == << A(205, "empty", FALSE, FALSE) >>
SpNumVa == << A(206, "numeric_va", FALSE, FALSE) >>
SpPre == << A(207, "indirect_register_pre", FALSE, FALSE) >>
\* one-operand variants
Pool1 == { V(sp, <<s>>, {}) : sp \in {<<>>, <<SpReg>>, <<SpNum>>, <<SpInd, SpReg>>, <<SpEmpty>>, <<SpEmpty, SpInd, SpReg>>, <<SpNum, SpEmpty>>, <<SpNumVa, SpReg>>, <<SpPre>>}, s \in Sets1 }
         \cup { V(<<SpReg>>, <<>>, {}), V(<<SpNum, SpReg>>, <<>>, {}), V(<<SpEmpty, SpReg>>, <<>>, {}) }
         \* one-element disallowed combinations: the register alternative of the set is excluded
         \cup { V(sp, <<s>>, {<<18>>, <<82>>, <<113>>, <<226>>, <<194>>}) : sp \in {<<>>, <<SpNum>>}, s \in {SA, SE, SG, SN, SL} }
\* "void": an operand slot with nothing in it (a stray, doubled or leading comma) - no alternative accepts it and it still counts as a slot
Texts1 == { <<>>, <<"num", "void">>, <<"void", "num">>, <<"r", "void">>, <<"void", "r">> } \cup { <<t>> : t \in {"r", "r2", "[r]", "[r+n]", "[n]", "[[n]]", "r+n", "key", "num", "lab", "{n}", "hexa", "chra", "r++", "@r", "-[r]", "bignum", "r+key", "++r", "key+n", "keyjunk"} }
\* two-operand variants
Sp2 == << A(210, "register", FALSE, FALSE), A(211, "numeric", FALSE, FALSE) >>
Pool2 == { V(sp, <<s1, s2>>, d) : sp \in {<<>>, <<Sp2>>}, s1 \in {SA, SE, SC}, s2 \in {SA, SD, SH},
                                  d \in {{}, {<<18, 17>>, <<82, 68>>}, {<<19, 130>>, <<18, 19>>, <<50, 17>>}} }
Texts2 == { <<"r", "void", "num">>, <<"r", "num", "void">>, <<"void", "r", "num">>, <<"r", "void">>, <<"void", "num">> } \cup { <<a, b>> : a \in {"r", "key", "num", "[r+n]", "r+n"}, b \in {"r", "key", "num", "lab"} }
          \cup { <<"key+n", "num">>, <<"r", "key+n">>, <<"keyjunk", "num">> }
=============================================================================
