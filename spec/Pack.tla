-------------------------------- MODULE Pack --------------------------------
(***************************************************************************)
(* C01 (a): bit packing of arbitrary field lists.  TLC appends fields from *)
(* a bounded alphabet (widths x alignment x byte order x boundary values)  *)
(* and checks on every list:                                               *)
(*   MachineEqualsLayout, EachFieldAtItsOffset, AlignedOnByteBoundary,     *)
(*   LengthIsCeil8 (= the size reserved in pass 1), PaddingIsZero.         *)
(***************************************************************************)
EXTENDS Bits, Json

CONSTANTS Widths, MaxFields
VARIABLE fs

\* boundary values of a width
Vals(w) == {0, 1, Pow2(w) - 1, -1, -(Pow2(w - 1))} \cup (IF w >= 2 THEN {Pow2(w - 1) - 1, Pow2(w - 1), Pow2(w - 1) + 1} ELSE {})
            \cup (IF w >= 9 THEN {Pow2(8) + 2, 165 + 256 * 3} ELSE {})
FieldAlphabet == {F(v, w, al, en) : w \in Widths, al \in BOOLEAN, en \in {"big", "little"}, v \in {x \in -70000..70000 : FALSE}} \cup
                 UNION {{F(v, w, al, en) : v \in {x \in Vals(w) : FitsField(x, w)}, al \in BOOLEAN, en \in {"big", "little"}} : w \in Widths}

Init == fs = <<>>
Next == Len(fs) < MaxFields /\ \E f \in FieldAlphabet : fs' = Append(fs, f)
Spec == Init /\ [][Next]_fs

MachineEqualsLayout == fs # <<>> => Machine(fs) = Flat(fs)
LengthIsCeil8 == fs # <<>> => Len(Flat(fs)) = ReservedBytes(fs)
EachFieldAtItsOffset ==
    \A k \in 1..Len(fs) :
        LET off == OffsetOf(fs, k, 0)
            all == FlatBits(fs, <<>>)
        IN  SubSeq(all, off + 1, off + fs[k].w) = Ordered(fs[k])
AlignedOnByteBoundary == \A k \in 1..Len(fs) : fs[k].al => (OffsetOf(fs, k, 0) % 8) = 0
\* every bit that belongs to no field is zero
PaddingIsZero ==
    LET all == FlatBits(fs, <<>>)
        covered == UNION {(OffsetOf(fs, k, 0) + 1)..(OffsetOf(fs, k, 0) + fs[k].w) : k \in 1..Len(fs)}
    IN  \A j \in 1..Len(all) : j \notin covered => all[j] = 0
\* big-endian fields are the value's MSB-first bits; little-endian fields of whole bytes are the byte-reversed big-endian ones
LittleIsByteReversed ==
    \A k \in 1..Len(fs) : (fs[k].en = "little" /\ (fs[k].w % 8) = 0) =>
        LET nb == fs[k].w \div 8
            bg == NatBits(Unsigned(fs[k].v, fs[k].w), fs[k].w)
        IN  Ordered(fs[k]) = [j \in 1..fs[k].w |-> bg[8 * (nb - 1 - ((j - 1) \div 8)) + ((j - 1) % 8) + 1]]

FsJ == [k \in 1..Len(fs) |-> <<fs[k].v, fs[k].w, IF fs[k].al THEN 1 ELSE 0, fs[k].en>>]
Emit == fs # <<>> => PrintT(<<"EMIT", ToJson([f |-> FsJ, b |-> Flat(fs)])>>)
=============================================================================
