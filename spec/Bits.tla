-------------------------------- MODULE Bits --------------------------------
(***************************************************************************)
(* Bit strings and the field layout of an instruction (C01, C10, C11, C12).*)
(* Pure operators, no variables.                                           *)
(*                                                                         *)
(* A FIELD is [v, w, al, en]: value, width in bits, byte-aligned?, byte    *)
(* order "big" / "little".  Values are integers in the signed-or-unsigned  *)
(* range of the width: -2^(w-1) .. 2^w - 1 (checked by FitsField, C12).    *)
(*                                                                         *)
(*   Flat(fs)     the statement: concatenate the fields' bit strings, each *)
(*                in its byte order, aligned fields starting on a byte     *)
(*                boundary, zero padded to whole bytes                     *)
(*   Machine(fs)  the implementation-shaped cursor machine (bytes, byteIdx,*)
(*                bitIdx) appending one bit at a time                      *)
(***************************************************************************)
EXTENDS Integers, Sequences, FiniteSets, TLC

Pow2(k) == 2 ^ k
F(v, w, al, en) == [v |-> v, w |-> w, al |-> al, en |-> en]

FitsField(v, w) == -(Pow2(w - 1)) <= v /\ v <= Pow2(w) - 1
\* two's complement reduction of an admissible value to a natural below 2^w
Unsigned(v, w) == IF v < 0 THEN v + Pow2(w) ELSE v

\* MSB-first bits of a natural u < 2^w
NatBits(u, w) == [i \in 1..w |-> (u \div Pow2(w - i)) % 2]

CeilDiv8(w) == (w + 7) \div 8

\* little-endian emission of a w-bit value: its bytes from least to most significant; when w is not a multiple
\* of 8 the most significant (last emitted) byte contributes only its low (w mod 8) bits
LittleBits(u, w) ==
    LET nb == CeilDiv8(w)
        r  == w % 8
        ByteK(k) == (u \div Pow2(8 * k)) % 256              \* k = 0 least significant
        full == [j \in 1..(8 * (IF r = 0 THEN nb ELSE nb - 1)) |->
                    LET k == (j - 1) \div 8  b == (j - 1) % 8 IN (ByteK(k) \div Pow2(7 - b)) % 2]
        part == IF r = 0 THEN <<>> ELSE [j \in 1..r |-> (ByteK(nb - 1) \div Pow2(r - j)) % 2]
    IN  full \o part

Ordered(f) == LET u == Unsigned(f.v, f.w) IN IF f.en = "little" THEN LittleBits(u, f.w) ELSE NatBits(u, f.w)

PadTo8(bits) == IF (Len(bits) % 8) = 0 THEN bits ELSE bits \o [j \in 1..(8 - (Len(bits) % 8)) |-> 0]

RECURSIVE FlatBits(_, _)
FlatBits(fs, acc) ==
    IF fs = <<>> THEN PadTo8(acc)
    ELSE LET f == Head(fs)
             a == IF f.al THEN PadTo8(acc) ELSE acc
         IN  FlatBits(Tail(fs), a \o Ordered(f))

BitsToBytes(bits) == [k \in 1..(Len(bits) \div 8) |->
                         LET B(j) == bits[8 * (k - 1) + j] IN
                         B(1) * 128 + B(2) * 64 + B(3) * 32 + B(4) * 16 + B(5) * 8 + B(6) * 4 + B(7) * 2 + B(8)]

Flat(fs) == BitsToBytes(FlatBits(fs, <<>>))

\* size reserved for an instruction in pass 1 (sum of widths with alignment gaps, rounded up)
RECURSIVE TotalBits(_, _)
TotalBits(fs, n) == IF fs = <<>> THEN n
                    ELSE LET a == IF Head(fs).al /\ (n % 8) # 0 THEN n + (8 - (n % 8)) ELSE n IN TotalBits(Tail(fs), a + Head(fs).w)
ReservedBytes(fs) == CeilDiv8(TotalBits(fs, 0))

\* offset of field k in the flat layout
RECURSIVE OffsetOf(_, _, _)
OffsetOf(fs, k, n) == LET a == IF Head(fs).al /\ (n % 8) # 0 THEN n + (8 - (n % 8)) ELSE n IN
                      IF k = 1 THEN a ELSE OffsetOf(Tail(fs), k - 1, a + Head(fs).w)

---------------------------------------------------------------------------
(* the cursor machine: m = [bytes, byteIdx (1-based), bitIdx (7 = MSB .. 0, -1 = byte full)] *)
M0 == [bytes |-> <<0>>, bi |-> 1, bit |-> 7]
PutBit(m, b) ==
    LET m1 == IF m.bit < 0 THEN [bytes |-> Append(m.bytes, 0), bi |-> m.bi + 1, bit |-> 7] ELSE m
    IN  [bytes |-> [m1.bytes EXCEPT ![m1.bi] = @ + b * Pow2(m1.bit)], bi |-> m1.bi, bit |-> m1.bit - 1]
RECURSIVE PutBits(_, _)
PutBits(m, bits) == IF bits = <<>> THEN m ELSE PutBits(PutBit(m, Head(bits)), Tail(bits))
AppendField(m, f) ==
    LET m1 == IF f.al /\ m.bit < 7 THEN [bytes |-> Append(m.bytes, 0), bi |-> m.bi + 1, bit |-> 7] ELSE m
    IN  PutBits(m1, Ordered(f))
RECURSIVE MachineRun(_, _)
MachineRun(m, fs) == IF fs = <<>> THEN m ELSE MachineRun(AppendField(m, Head(fs)), Tail(fs))
Machine(fs) == MachineRun(M0, fs).bytes
=============================================================================
