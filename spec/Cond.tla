-------------------------------- MODULE Cond --------------------------------
(***************************************************************************)
(* C08: what a condition of #if / #elif means.                             *)
(*                                                                         *)
(* A scenario is one condition  L op R  (or the bare  L):                  *)
(*    L = a / b   (b = 1: just a;  a may be negative, then written (0-n))  *)
(*    R = c / d                                                            *)
(*    q   the right-hand side is written in quotes                         *)
(* Both sides are numeric, so integers are compared: each side has the     *)
(* integer value of its expression, the exact quotient truncated toward    *)
(* zero (Expr.tla, C07), whether or not the right-hand side is quoted and  *)
(* however its digits are spelled.  A bare expression means "is not 0".    *)
(* Two formulations: Holds compares the two integer values; HoldsBySign    *)
(* (the shape of an implementation that subtracts) looks at the sign of    *)
(* the difference OF THE TWO INTEGERS.  TLC checks they agree and that the *)
(* six operators partition as they must.                                   *)
(***************************************************************************)
EXTENDS Integers, Sequences, TLC, Json

CONSTANT Scenarios
VARIABLE sc

C(a, b, op, c, d, q, bare) == [a |-> a, b |-> b, op |-> op, c |-> c, d |-> d, q |-> q, bare |-> bare, lw |-> "", rw |-> ""]
\* a TEXT scenario: the left-hand side is a symbol whose value is the word lw, the right-hand side the word rw (quoted or not);
\* neither is a number, so the two texts are compared - equal or not equal, nothing else is asked here.  How many blanks or
\* tabs stand around the operator carries no meaning in either kind of scenario (the harness varies them).
T(lw, op, rw, q) == [a |-> 0, b |-> 1, op |-> op, c |-> 0, d |-> 1, q |-> q, bare |-> FALSE, lw |-> lw, rw |-> rw]
Text(s) == s.lw # ""
Ops == {"==", "!=", "<", "<=", ">", ">="}

Trunc(n, d) == IF n < 0 THEN -((-n) \div d) ELSE n \div d        \* d > 0
Cmp(op, x, y) == CASE op = "==" -> x = y [] op = "!=" -> x # y [] op = "<" -> x < y [] op = "<=" -> x <= y
                   [] op = ">" -> x > y [] OTHER -> x >= y
Lhs(s) == Trunc(s.a, s.b)
Rhs(s) == Trunc(s.c, s.d)
Holds(s) == IF Text(s) THEN (IF s.op = "==" THEN s.lw = s.rw ELSE s.lw # s.rw)
            ELSE IF s.bare THEN Lhs(s) # 0 ELSE Cmp(s.op, Lhs(s), Rhs(s))
Sign(x) == IF x < 0 THEN -1 ELSE IF x = 0 THEN 0 ELSE 1
HoldsBySign(s) == IF Text(s) THEN Holds(s) ELSE IF s.bare THEN Sign(Lhs(s)) # 0 ELSE Cmp(s.op, Sign(Lhs(s) - Rhs(s)), 0)

Init == sc \in Scenarios
Spec == Init /\ [][FALSE]_sc

SignFormAgrees == Holds(sc) = HoldsBySign(sc)
OperatorsPartition ==
    /\ Text(sc) => Holds([sc EXCEPT !.op = "=="]) = ~Holds([sc EXCEPT !.op = "!="])
    /\ (~sc.bare /\ ~Text(sc)) =>
        /\ Holds([sc EXCEPT !.op = "=="]) = ~Holds([sc EXCEPT !.op = "!="])
        /\ Holds([sc EXCEPT !.op = "<"])  = ~Holds([sc EXCEPT !.op = ">="])
        /\ Holds([sc EXCEPT !.op = ">"])  = ~Holds([sc EXCEPT !.op = "<="])
        /\ Holds([sc EXCEPT !.op = "<="]) = (Holds([sc EXCEPT !.op = "<"]) \/ Holds([sc EXCEPT !.op = "=="]))
QuotesCarryNoMeaning == Holds(sc) = Holds([sc EXCEPT !.q = ~@])
\* truncation is toward zero on both sides of zero
TruncTowardZero == /\ Lhs(sc) * sc.b <= (IF sc.a >= 0 THEN sc.a ELSE -sc.a) \/ sc.a < 0
                   /\ (sc.a >= 0 => (Lhs(sc) * sc.b <= sc.a /\ sc.a < (Lhs(sc) + 1) * sc.b))
                   /\ (sc.a < 0  => (Lhs(sc) * sc.b >= sc.a /\ sc.a > (Lhs(sc) - 1) * sc.b))

Emit == PrintT(<<"EMIT", ToJson([s |-> sc, holds |-> Holds(sc), l |-> Lhs(sc), r |-> Rhs(sc)])>>)
=============================================================================
