--------------------------- MODULE Trace_Formats ---------------------------
(***************************************************************************)
(* C16, code -> specification: recorded outputs of the real pretty         *)
(* printers, tokenised by the harness, must DESCRIBE (Formats.tla) the     *)
(* memory contents the assembly produced.  A record of the batch file is   *)
(* [fmt, items, mem]: mem = sequence of <<address, byte>> pairs (from the  *)
(* specification's scenario, or from the pass-2 hook events for repository *)
(* programs).                                                              *)
(***************************************************************************)
EXTENDS Integers, Sequences, FiniteSets, TLC, Json, IOUtils, SequencesExt

Recs == JsonDeserialize(IOEnv.TRACE_FILE)
VARIABLE rid

F == INSTANCE Formats WITH MaxItems <- 0, fmt <- "", items <- <<>>

MemOf(r) == {<<r.mem[i][1], r.mem[i][2]>> : i \in 1..Len(r.mem)}
\* a listing record also carries the statements the assembly produced (stmts); for repository programs only the memory is known
RecOk(r) == /\ F!Describes(r.fmt, r.items, MemOf(r))
            /\ (r.fmt = "listing" /\ r.check_stmts) => F!ShowsStatements(r.items, r.stmts)

Init == rid \in 1..Len(Recs)
Spec == Init /\ [][FALSE]_rid
Accepted == RecOk(Recs[rid]) => PrintT(<<"ACC", ToJson([t |-> rid])>>)
=============================================================================
