------------------------------ MODULE MC_Lexer ------------------------------
EXTENDS Lexer
StmtsA == { St("lab", "g1", 0, 0), St("i0", "", 0, 0), St("i1n", "", 5, 0), St("i1l", "g1", 0, 0), St("i1r", "a", 0, 0),
            St("i1r", "b", 0, 0), St("dat", "", 17, 34), St("i1c", "", 97, 0), St("i1c", "", 65, 0), St("str", "", 0, 0),
            St("lab", "l1", 0, 0), St("i1l", "l1", 0, 0), St("strg", "", 0, 0), St("brx", "g1", 0, 0), St("ldo", "", 0, 0), St("strt", "", 0, 0), St("lin", "", 0, 0) }
StmtsB == { St("lab", "g1", 0, 0), St("i0", "", 0, 0), St("i1n", "", 5, 0), St("i1l", "g1", 0, 0), St("i1r", "a", 0, 0), St("dat", "", 17, 34), St("brx", "g1", 0, 0), St("ldo", "", 0, 0), St("lin", "", 0, 0),
            St("lab", "l1", 0, 0), St("i1l", "l1", 0, 0) }
\* preprocessor statements among ordinary ones
StmtsP == { St("cel", "", 85, 102), St("cif", "eq", 17, 34), St("cif", "ne", 17, 34), St("def", "", 51, 0), St("ifd", "", 68, 0), St("dft", "", 119, 136), St("i1n", "", 5, 0), St("lab", "g1", 0, 0) }
StylesSep == { Sy("lo", s, m, p) : s \in {"s1", "s3", "tab", "ts"}, m \in {"none", "plain"}, p \in {"own", "blank"} }
StylesAll == { Sy(c, s, m, p) : c \in {"lo", "up", "mi"}, s \in {"s1", "s3", "tab", "ts"}, m \in {"none", "plain", "quotes"},
                                p \in {"own", "join", "blank"} }
StylesHalf == { Sy(c, s, "none", p) : c \in {"lo", "up", "mi"}, s \in {"s1", "s3", "tab", "ts"}, p \in {"own", "join", "blank"} }
              \cup { Sy("lo", "s1", m, p) : m \in {"plain", "quotes"}, p \in {"own", "join", "blank"} }
\* a covering subset for longer programs: every value of every dimension, pairwise with the canonical rest
StylesCore == { Sy("lo", "s1", "none", "own"), Sy("up", "s1", "none", "own"), Sy("mi", "tab", "none", "own"), Sy("lo", "s3", "plain", "own"),
                Sy("lo", "ts", "quotes", "own"), Sy("lo", "s1", "none", "join"), Sy("up", "tab", "none", "join"), Sy("mi", "s3", "plain", "blank"),
                Sy("lo", "tab", "none", "blank"), Sy("up", "ts", "quotes", "join") }
=============================================================================
