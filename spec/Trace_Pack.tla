----------------------------- MODULE Trace_Pack -----------------------------
(***************************************************************************)
(* C01 / C12 beyond 32-bit integers: field lists with widths 1..64 and     *)
(* arbitrary 64-bit values, recorded from the real packer, are checked     *)
(* against the layout on BIT STRINGS (no TLC integer ever holds a value).  *)
(*                                                                         *)
(* A record is [fields, bytes, ok]: fields = sequence of                   *)
(*   [w, al, en, neg, mag]   width, byte-aligned, byte order, sign and     *)
(*                           magnitude of the value as MSB-first bits      *)
(* bytes = what the implementation emitted (sequence of 0..255), ok =      *)
(* whether it accepted the values.                                         *)
(*   Fits(f)      the value lies in -2^(w-1) .. 2^w - 1                    *)
(*   Field bits   two's complement of the value in w bits                  *)
(*   Layout       big: the bits; little: the value's bytes least           *)
(*                significant first, the top partial byte last             *)
(* The record is accepted iff ok = all fields fit, and if ok the bytes are *)
(* exactly the flat concatenation (aligned fields on byte boundaries,      *)
(* zero padding).                                                          *)
(***************************************************************************)
EXTENDS Integers, Sequences, FiniteSets, TLC, Json, IOUtils, SequencesExt

Recs == JsonDeserialize(IOEnv.TRACE_FILE)
VARIABLE rid

Strip(b) == LET nz == {i \in 1..Len(b) : b[i] = 1} IN
            IF nz = {} THEN <<>> ELSE SubSeq(b, CHOOSE i \in nz : \A j \in nz : i <= j, Len(b))
IsPow2(m) == m # <<>> /\ m[1] = 1 /\ \A i \in 2..Len(m) : m[i] = 0       \* m stripped
Fits(f) == LET m == Strip(f.mag) IN
           IF ~f.neg \/ m = <<>> THEN Len(m) <= f.w
           ELSE Len(m) < f.w \/ (Len(m) = f.w /\ IsPow2(m))                  \* |v| <= 2^(w-1)

Zeros(n) == [i \in 1..n |-> 0]
PadLeft(m, w) == Zeros(w - Len(m)) \o m
\* two's complement negation of a w-bit string: invert, add one
RECURSIVE Inc(_, _)
Inc(b, i) == IF i = 0 THEN b ELSE IF b[i] = 0 THEN [b EXCEPT ![i] = 1] ELSE Inc([b EXCEPT ![i] = 0], i - 1)
Twos(f) == LET m == PadLeft(Strip(f.mag), f.w) IN
           IF ~f.neg \/ Strip(f.mag) = <<>> THEN m ELSE Inc([i \in 1..f.w |-> 1 - m[i]], f.w)

\* little-endian order of an MSB-first w-bit string
LittleOf(bits) ==
    LET w == Len(bits)
        r == w % 8
        nfull == w \div 8
        \* full byte k (k = 0 least significant) occupies bits [w - 8k - 7 .. w - 8k]
        Full(k) == SubSeq(bits, w - 8 * k - 7, w - 8 * k)
        RECURSIVE Cat(_)
        Cat(k) == IF k = nfull THEN <<>> ELSE Full(k) \o Cat(k + 1)
    IN  Cat(0) \o SubSeq(bits, 1, r)
Ordered(f) == IF f.en = "little" THEN LittleOf(Twos(f)) ELSE Twos(f)

PadTo8(bits) == IF (Len(bits) % 8) = 0 THEN bits ELSE bits \o Zeros(8 - (Len(bits) % 8))
FlatBits(fs) == PadTo8(FoldLeft(LAMBDA acc, f : (IF f.al THEN PadTo8(acc) ELSE acc) \o Ordered(f), <<>>, fs))
ByteBits(v) == [j \in 1..8 |-> (v \div (2 ^ (8 - j))) % 2]
BytesAsBits(bs) == FoldLeft(LAMBDA acc, v : acc \o ByteBits(v), <<>>, bs)

RecOk(r) ==
    LET allfit == \A i \in 1..Len(r.fields) : Fits(r.fields[i]) IN
    /\ r.ok = allfit
    /\ r.ok => BytesAsBits(r.bytes) = FlatBits(r.fields)

Init == rid \in 1..Len(Recs)
Spec == Init /\ [][FALSE]_rid
Accepted == RecOk(Recs[rid]) => PrintT(<<"ACC", ToJson([t |-> rid])>>)
=============================================================================
