------------------------------- MODULE Match -------------------------------
(***************************************************************************)
(* C13: variant and operand selection.                                     *)
(*                                                                         *)
(* Operand TEXT CLASSES (the harness spells them with register r1, the     *)
(* enumeration key kx, the number 5, the label lab):                       *)
(*   r  r2  [r]  [r+n]  [n]  [[n]]  r+n  key  num  lab  {n}                *)
(*   bignum (300: a number no 8-bit field holds - WHICH alternative a text  *)
(*   selects never depends on its value; a value the selected field cannot *)
(*   hold rejects the statement, it does not move on to a later variant)   *)
(*   r+key (a register indexed by an identifier that is an enumeration key  *)
(*   of the index and, as text, also a label): inside an indexed register   *)
(*   the index alternatives follow the same type priority - the key wins    *)
(*   over the numeric reading (IndexReading)                                *)
(*   r++  @r  (decorated register)   -[r]  (decorated indirect register)   *)
(*   a statement may also have NO operand text at all (the empty tuple): an *)
(*   explicitly listed combination consisting of the "empty" operand       *)
(*   accepts exactly that (the documented "pop" form); the empty operand   *)
(*   consumes no text and is not available in operand sets                 *)
(*   key+n (kx+1: an expression that BEGINS with an enumeration key is a     *)
(*   numeric expression, not a key)   keyjunk (kx lab: a key followed by    *)
(*   more text is nothing at all)                                          *)
(*   hexa ($a, a hexadecimal number) chra ('a', a character) - a register  *)
(*   named a is declared: these are numbers, not register references       *)
(* An ALTERNATIVE is [id, ty, off, curly]: its identifier (which becomes   *)
(* its operand code, so the emitted bytes name the choice), its type, for  *)
(* indirect registers whether an offset is configured, for relative        *)
(* addresses whether curly braces are required.                            *)
(* Rank(ty) is the documented matching precedence inside an operand set:   *)
(* bracketed forms, then register-indexed, enumeration keys, registers,    *)
(* numeric expressions, addresses, relative addresses, numeric operand     *)
(* codes; ties are broken by definition order.                             *)
(*                                                                         *)
(* A VARIANT is [spec, sets, dis]: a sequence of specific operand lists    *)
(* (each a sequence of alternatives), a sequence of operand sets (each a   *)
(* sequence of alternatives in DEFINITION order), and disallowed id        *)
(* tuples.                                                                 *)
(*   Select     - the implementation-shaped nested loops                   *)
(*   SelectDecl - the statement: the least (variant, specific list |       *)
(*                operand sets) that accepts, alternatives by (rank,       *)
(*                definition index)                                        *)
(***************************************************************************)
EXTENDS Integers, Sequences, FiniteSets, TLC, Json, SequencesExt

CONSTANTS VariantPool,    \* set of variant records
          TextTuples,     \* set of operand text tuples (sequences of text classes)
          MaxVariants

VARIABLES isa, texts
vars == <<isa, texts>>

A(id, ty, off, curly) == [id |-> id, ty |-> ty, off |-> off, curly |-> curly]

Rank(ty) ==
    CASE ty \in {"indirect_register", "indirect_register_pre"} -> 2 [] ty = "indirect_indexed_register" -> 3 [] ty = "indirect_numeric" -> 4
      [] ty = "deferred_numeric" -> 5 [] ty \in {"indexed_register", "indexed_register2"} -> 6 [] ty \in {"enumeration", "enumeration0"} -> 7
      [] ty \in {"register", "register_pp", "register_prepp", "register_at"} -> 8        \* a decorated register is a register operand
      [] ty \in {"numeric", "numeric_va", "numeric16"} -> 9 [] ty = "address" -> 10 [] ty = "relative_address" -> 11 [] ty = "numeric_bytecode" -> 12
      [] OTHER -> 99

\* does alternative a accept operand text class t?  (register operands are for r1; r2 is another declared register)
Acc(a, t) ==
    CASE a.ty = "register" -> t = "r"
      [] a.ty = "register_pp" -> t = "r++"          \* register with the postfix decorator ++
      [] a.ty = "register_prepp" -> t = "++r"       \* the same decorator as a prefix: another operand text altogether
      [] a.ty = "register_at" -> t = "@r"           \* register with the prefix decorator @
      [] a.ty = "indirect_register" -> t = "[r]" \/ (a.off /\ t = "[r+n]")
      [] a.ty = "indirect_register_pre" -> t = "-[r]"          \* indirect register with the prefix decorator -
      [] a.ty = "indirect_indexed_register" -> t = "[r+n]"
      [] a.ty = "indirect_numeric" -> t = "[n]"
      [] a.ty = "deferred_numeric" -> t = "[[n]]"
      [] a.ty = "indexed_register" -> t \in {"r+n", "r+key"}            \* a numeric index: the key is read as a label
      [] a.ty = "indexed_register2" -> t \in {"r+n", "r+key"}           \* index alternatives listed as numeric, enumeration (not in priority order)
      [] a.ty = "enumeration" -> t = "key"
      [] a.ty = "enumeration0" -> t = "key"         \* an enumeration with an argument dictionary only, whose key is mapped to the value 0
      \* a numeric expression: numbers and labels (an enumeration key is, as text, an identifier, i.e. a label);
      \* NEVER a register name, alone or inside the expression
      \* numeric_va: a numeric operand whose value must be a valid address - the flag changes nothing about what text it accepts
      [] a.ty \in {"numeric", "numeric_va", "numeric16", "address", "numeric_bytecode"} -> t \in {"num", "lab", "key", "hexa", "chra", "bignum", "key+n"}
      [] a.ty = "relative_address" -> IF a.curly THEN t = "{n}" ELSE t \in {"num", "lab", "key", "hexa", "chra", "bignum", "key+n"}
      [] OTHER -> FALSE

\* stable sort of an operand set by rank: position of the alternative tried k-th
Sorted(set) == SortSeq(set, LAMBDA x, y : Rank(x.ty) < Rank(y.ty))   \* only used on sets whose equal-rank members are checked below
\* first accepting alternative of a set in (rank, definition index) order; 0 if none
BestIn(set, t) ==
    LET cand == {i \in 1..Len(set) : Acc(set[i], t)} IN
    IF cand = {} THEN 0
    ELSE CHOOSE i \in cand : \A j \in cand : Rank(set[i].ty) < Rank(set[j].ty) \/ (Rank(set[i].ty) = Rank(set[j].ty) /\ i <= j)

\* operational loop over one operand set: alternatives are visited in sorted order
RECURSIVE LoopSet(_, _, _)
LoopSet(order, set, t) ==      \* order: indices of set in the order they are tried
    IF order = <<>> THEN 0 ELSE IF Acc(set[Head(order)], t) THEN Head(order) ELSE LoopSet(Tail(order), set, t)
RECURSIVE InsertIdx(_, _, _)
InsertIdx(ord, set, i) ==      \* stable insertion of index i into ord by rank
    IF ord = <<>> THEN <<i>>
    ELSE IF Rank(set[Last(ord)].ty) <= Rank(set[i].ty) THEN Append(ord, i)
    ELSE Append(InsertIdx(Front(ord), set, i), Last(ord))
TryOrder(set) == FoldLeft(LAMBDA ord, i : InsertIdx(ord, set, i), <<>>, [i \in 1..Len(set) |-> i])

\* result of one variant: <<>> if it does not accept, else the sequence of chosen alternative ids
NonEmpty(lst) == SelectSeq(lst, LAMBDA a : a.ty # "empty")
SpecificMatch(lst, ts) == LET ne == NonEmpty(lst) IN Len(ne) = Len(ts) /\ \A k \in 1..Len(ts) : Acc(ne[k], ts[k])
IdsOf(lst) == [k \in 1..Len(lst) |-> lst[k].id]
RECURSIVE FirstSpecific(_, _, _)
FirstSpecific(specs, ts, j) ==
    IF j > Len(specs) THEN 0 ELSE IF SpecificMatch(specs[j], ts) THEN j ELSE FirstSpecific(specs, ts, j + 1)

VariantResult(v, ts) ==
    LET j == FirstSpecific(v.spec, ts, 1) IN
    IF j # 0 THEN [ok |-> TRUE, ids |-> IdsOf(v.spec[j])]
    ELSE IF v.sets = <<>> \/ Len(v.sets) # Len(ts) THEN [ok |-> FALSE, ids |-> <<>>]
    ELSE LET pick == [k \in 1..Len(ts) |-> LoopSet(TryOrder(v.sets[k]), v.sets[k], ts[k])] IN
         IF \E k \in 1..Len(ts) : pick[k] = 0 THEN [ok |-> FALSE, ids |-> <<>>]
         ELSE LET ids == [k \in 1..Len(ts) |-> v.sets[k][pick[k]].id] IN
              IF ids \in v.dis THEN [ok |-> FALSE, ids |-> <<>>] ELSE [ok |-> TRUE, ids |-> ids]

RECURSIVE Select(_, _, _)
Select(vs, ts, i) ==
    IF i > Len(vs) THEN [ok |-> FALSE, v |-> 0, ids |-> <<>>]
    ELSE LET r == VariantResult(vs[i], ts) IN
         IF r.ok THEN [ok |-> TRUE, v |-> i, ids |-> r.ids] ELSE Select(vs, ts, i + 1)

\* declarative reading
VariantAccepts(v, ts) ==
    \/ \E j \in 1..Len(v.spec) : SpecificMatch(v.spec[j], ts)
    \/ /\ Len(v.sets) = Len(ts) /\ v.sets # <<>>
       /\ \A k \in 1..Len(ts) : BestIn(v.sets[k], ts[k]) # 0
       /\ [k \in 1..Len(ts) |-> v.sets[k][BestIn(v.sets[k], ts[k])].id] \notin v.dis
SelectDecl(vs, ts) ==
    LET acc == {i \in 1..Len(vs) : VariantAccepts(vs[i], ts)} IN
    IF acc = {} THEN [ok |-> FALSE, v |-> 0, ids |-> <<>>]
    ELSE LET i == CHOOSE x \in acc : \A y \in acc : x <= y
             v == vs[i]
             sp == {j \in 1..Len(v.spec) : SpecificMatch(v.spec[j], ts)}
         IN  IF sp # {} THEN [ok |-> TRUE, v |-> i, ids |-> IdsOf(v.spec[CHOOSE j \in sp : \A j2 \in sp : j <= j2])]
             ELSE [ok |-> TRUE, v |-> i, ids |-> [k \in 1..Len(ts) |-> v.sets[k][BestIn(v.sets[k], ts[k])].id]]

\* the statement's fate after selection: every field has to hold its value (only numeric16 holds 300)
AllAlts(v) == UNION {{v.spec[j][k] : k \in 1..Len(v.spec[j])} : j \in 1..Len(v.spec)} \cup UNION {{v.sets[k][a] : a \in 1..Len(v.sets[k])} : k \in 1..Len(v.sets)}
AltById(v, id) == CHOOSE a \in AllAlts(v) : a.id = id
Outcome(vs, ts) ==
    LET sel == Select(vs, ts, 1) IN
    IF ~sel.ok THEN sel
    ELSE LET ne == SelectSeq(sel.ids, LAMBDA id : AltById(vs[sel.v], id).ty # "empty") IN
         IF \E k \in 1..Len(ts) : ts[k] = "bignum" /\ AltById(vs[sel.v], ne[k]).ty # "numeric16"
         THEN [ok |-> FALSE, v |-> 0, ids |-> <<>>] ELSE sel
\* a value that does not fit never changes the selection: the statement is then rejected although a later variant could hold it
ValueNeverSelects == isa # <<>> => (Outcome(isa, texts).ok => Outcome(isa, texts) = Select(isa, texts, 1))

\* which index alternative of an indexed_register2 reads the index text: the enumeration for its key, else the numeric one
IndexReading(a, t) == IF a.ty = "indexed_register2" /\ t = "r+key" THEN "enumeration" ELSE "numeric"

Init == isa = <<>> /\ texts \in TextTuples
Next == Len(isa) < MaxVariants /\ \E v \in VariantPool : isa' = Append(isa, v) /\ UNCHANGED texts
Spec == Init /\ [][Next]_vars

SelectedIsLeastAccepting == isa # <<>> => Select(isa, texts, 1) = SelectDecl(isa, texts)
RegisterNeverNumeric ==
    \A i \in 1..Len(isa) : \A k \in 1..Len(isa[i].sets) : \A a \in 1..Len(isa[i].sets[k]) :
        isa[i].sets[k][a].ty \in {"numeric", "numeric_va", "numeric16", "address", "numeric_bytecode", "relative_address"}
            => ~Acc(isa[i].sets[k][a], "r") /\ ~Acc(isa[i].sets[k][a], "r2") /\ ~Acc(isa[i].sets[k][a], "r+n")
NoAcceptingMeansRejected ==
    isa # <<>> => (Select(isa, texts, 1).ok <=> \E i \in 1..Len(isa) : VariantAccepts(isa[i], texts))

AltJ(a) == <<a.id, a.ty, IF a.off THEN 1 ELSE 0, IF a.curly THEN 1 ELSE 0>>
VarJ(v) == [spec |-> [j \in 1..Len(v.spec) |-> [k \in 1..Len(v.spec[j]) |-> AltJ(v.spec[j][k])]],
            sets |-> [k \in 1..Len(v.sets) |-> [a \in 1..Len(v.sets[k]) |-> AltJ(v.sets[k][a])]],
            dis |-> SetToSeq(v.dis)]
Emit == isa # <<>> => PrintT(<<"EMIT", ToJson([isa |-> [i \in 1..Len(isa) |-> VarJ(isa[i])], t |-> texts, r |-> Outcome(isa, texts), sel |-> Select(isa, texts, 1)])>>)
=============================================================================
