------------------------------- MODULE Lexer -------------------------------
(***************************************************************************)
(* C18: surface syntax carries no meaning.                                 *)
(*                                                                         *)
(* A program P is a sequence of abstract statements over the carrier ISA:  *)
(*   lab n | i0 (nop) | i1n v (ld8 v) | i1l n (ld16 label) | i1r r (mov r) *)
(*   | dat v w (.byte v, w) | i1c v (ld8 'c', c the character with code v) *)
(*   | str (.cstr "a\"b", a string with an escaped quote)                  *)
(*   | brx n (bra n + 1: a relative branch whose operand is an expression  *)
(*     with blanks of the statement's style around its operator)            *)
(*   | ldo (ldo [a + 2]: an indirect register with an offset; the register *)
(*     name inside the brackets follows the style's letter case)           *)
(*   | strt (.cstr "a<TAB>b", a string with a tab character in it)          *)
(*   | strg (.cstr "glob1: b", a string that repeats the spelling of the    *)
(*     label g1 with its colon)                                            *)
(*   | cif n v w (a conditional block on five lines: #if MODE == fast or   *)
(*     slow / .byte v, v / #else / .byte w, w / #endif; MODE is predefined  *)
(*     as fast, the comparison is one of texts)                            *)
(*   | def v (#define DSYMj v / .byte DSYMj, DSYMj; j the position)        *)
(*   | ifd v (#ifdef MODE / .byte v, v / #endif)                           *)
(*   | dft v w (#define DSYMj fast / #if DSYMj == fast / .byte v, v /      *)
(*     #else / .byte w, w / #endif: the replacement text is the word, not  *)
(*     the blanks in front of it)                                          *)
(*   | lin (ldn [ 5 ]: an indirect numeric operand with blanks of the      *)
(*     style behind the opening and in front of the closing bracket)       *)
(* Render(P, c) turns P into a sequence of LEXICAL ITEMS under a style c   *)
(* per statement: letter case of the mnemonic and of a register operand,   *)
(* kind / amount of blank between tokens, a trailing comment, blank lines, *)
(* the statement placed on its own line or joined to the previous one      *)
(* (label in front of its statement, consecutive instructions on a line).  *)
(* Tokenize is the line tokenizer as a machine over items.  TLC checks     *)
(*      Tokenize(Render(P, c)) = P     for every P and c in the bound,     *)
(* hence any two renderings of P assemble alike; Bytes(P) is what they     *)
(* assemble to.  The harness spells the items as text.                     *)
(***************************************************************************)
EXTENDS Integers, Sequences, FiniteSets, TLC, Json, SequencesExt

CONSTANTS Stmts,      \* statement alphabet
          Styles,     \* style alphabet
          MaxLen

VARIABLES prog, sty
vars == <<prog, sty>>

St(k, n, v, w) == [k |-> k, n |-> n, v |-> v, w |-> w]
Sy(case, sep, com, place) == [case |-> case, sep |-> sep, com |-> com, place |-> place]
\* case: "lo" "up" "mi"; sep: "s1" "s3" "tab" "ts"; com: "none" "plain" "quotes"; place: "own" "join" "blank"

IsInstr(s) == s.k \in {"i0", "i1n", "i1l", "i1r", "i1c", "brx", "ldo", "lin"}
\* joining: an instruction may share a line with the previous instruction, and any statement with a previous label
IsPre(s) == s.k \in {"cif", "def", "ifd", "cel", "dft"}            \* preprocessor statements always start a line
CanJoin(prev, s) == ~IsPre(s) /\ ((prev.k = "lab" /\ s.k # "lab") \/ (IsInstr(prev) /\ IsInstr(s)))

\* items: [t, a, b]
It(t, a, b) == [t |-> t, a |-> a, b |-> b]
NLI == It("NL", "", "")
ByteLine(y, a, b) == <<It("DIR", ".byte", ""), It("BL", y.sep, ""), a, It("COMMA", y.sep, ""), b>>
StmtItems(s, y, j) ==
    CASE s.k = "cif" -> <<It("DIR", "#if", ""), It("BL", y.sep, ""), It("SYM", "MODE", ""), It("BL", y.sep, ""), It("OP", "==", ""),
                          It("BL", y.sep, ""), It("WORD", IF s.n = "eq" THEN "fast" ELSE "slow", ""), NLI>>
                        \o ByteLine(y, It("NUM", "", s.v), It("NUM", "", s.v)) \o <<NLI, It("DIR", "#else", ""), NLI>>
                        \o ByteLine(y, It("NUM", "", s.w), It("NUM", "", s.w)) \o <<NLI, It("DIR", "#endif", "")>>
      \* cel: #if MODE == slow / .byte v, v / #elif MODE == fast / .byte w, w / #else / .byte 0, 0 / #endif  (the #elif is reached while
      \* its chain has not selected a branch yet: it is the #elif branch that is selected)
      [] s.k = "cel" -> <<It("DIR", "#if", ""), It("BL", y.sep, ""), It("SYM", "MODE", ""), It("BL", y.sep, ""), It("OP", "==", ""),
                          It("BL", y.sep, ""), It("WORD", "slow", ""), NLI>>
                        \o ByteLine(y, It("NUM", "", s.v), It("NUM", "", s.v))
                        \o <<NLI, It("DIR", "#elif", ""), It("BL", y.sep, ""), It("SYM", "MODE", ""), It("BL", y.sep, ""), It("OP", "==", ""),
                             It("BL", y.sep, ""), It("WORD", "fast", ""), NLI>>
                        \o ByteLine(y, It("NUM", "", s.w), It("NUM", "", s.w)) \o <<NLI, It("DIR", "#else", ""), NLI>>
                        \o ByteLine(y, It("NUM", "", 0), It("NUM", "", 0)) \o <<NLI, It("DIR", "#endif", "")>>
      [] s.k = "def" -> <<It("DIR", "#define", ""), It("BL", y.sep, ""), It("DSYM", "", j), It("BL", y.sep, ""), It("NUM", "", s.v), NLI>>
                        \o ByteLine(y, It("DSYM", "", j), It("DSYM", "", j))
      [] s.k = "dft" -> <<It("DIR", "#define", ""), It("BL", y.sep, ""), It("DSYM", "", j), It("BL", y.sep, ""), It("WORD", "fast", ""), NLI,
                          It("DIR", "#if", ""), It("BL", y.sep, ""), It("DSYM", "", j), It("BL", y.sep, ""), It("OP", "==", ""),
                          It("BL", y.sep, ""), It("WORD", "fast", ""), NLI>>
                        \o ByteLine(y, It("NUM", "", s.v), It("NUM", "", s.v)) \o <<NLI, It("DIR", "#else", ""), NLI>>
                        \o ByteLine(y, It("NUM", "", s.w), It("NUM", "", s.w)) \o <<NLI, It("DIR", "#endif", "")>>
      [] s.k = "lin" -> <<It("MN", "ldn", y.case), It("BL", y.sep, ""), It("LBR", "", ""), It("BL", y.sep, ""), It("NUM", "", 5), It("BL", y.sep, ""), It("RBR", "", "")>>
      [] s.k = "ifd" -> <<It("DIR", "#ifdef", ""), It("BL", y.sep, ""), It("SYM", "MODE", ""), NLI>>
                        \o ByteLine(y, It("NUM", "", s.v), It("NUM", "", s.v)) \o <<NLI, It("DIR", "#endif", "")>>
      [] s.k = "lab" -> <<It("LAB", s.n, "")>>
      [] s.k = "i0"  -> <<It("MN", "nop", y.case)>>
      [] s.k = "i1n" -> <<It("MN", "ld8", y.case), It("BL", y.sep, ""), It("NUM", "", s.v)>>
      [] s.k = "i1l" -> <<It("MN", "ld16", y.case), It("BL", y.sep, ""), It("REF", s.n, "")>>
      [] s.k = "i1r" -> <<It("MN", "mov", y.case), It("BL", y.sep, ""), It("REG", s.n, y.case)>>
      [] s.k = "i1c" -> <<It("MN", "ld8", y.case), It("BL", y.sep, ""), It("CHR", "", s.v)>>
      [] s.k = "brx" -> <<It("MN", "bra", y.case), It("BL", y.sep, ""), It("REF", s.n, ""), It("BL", y.sep, ""), It("PLUS", "", ""), It("BL", y.sep, ""), It("NUM", "", 1)>>
      [] s.k = "ldo" -> <<It("MN", "ldo", y.case), It("BL", y.sep, ""), It("LBR", "", ""), It("REG", "a", y.case), It("BL", y.sep, ""), It("PLUS", "", ""),
                          It("BL", y.sep, ""), It("NUM", "", 2), It("RBR", "", "")>>
      [] s.k = "str" -> <<It("DIR", ".cstr", ""), It("BL", y.sep, ""), It("STR", "", 0)>>
      [] s.k = "strg" -> <<It("DIR", ".cstr", ""), It("BL", y.sep, ""), It("STRL", "", 0)>>
      [] s.k = "strt" -> <<It("DIR", ".cstr", ""), It("BL", y.sep, ""), It("STRT", "", 0)>>
      [] OTHER       -> <<It("DIR", ".byte", ""), It("BL", y.sep, ""), It("NUM", "", s.v), It("COMMA", y.sep, ""), It("NUM", "", s.w)>>

RECURSIVE RenderFrom(_, _, _)
RenderFrom(p, c, j) ==
    IF j > Len(p) THEN <<>>
    ELSE LET s == p[j]  y == c[j]
             joined == j > 1 /\ y.place = "join" /\ CanJoin(p[j - 1], s) /\ c[j - 1].com = "none"
             lead == IF j = 1 THEN <<>>
                     ELSE IF joined THEN <<It("BL", y.sep, "")>>
                     ELSE IF y.place = "blank" THEN <<It("NL", "", ""), It("BL", "s3", ""), It("NL", "", "")>> ELSE <<It("NL", "", "")>>
             indent == IF ~joined /\ y.sep \in {"tab", "s3"} /\ s.k # "lab" THEN <<It("BL", y.sep, "")>> ELSE <<>>
             tail == IF y.com = "none" THEN <<>> ELSE <<It("BL", "s1", ""), It("COM", y.com, "")>>
         IN  lead \o indent \o StmtItems(s, y, j) \o tail \o RenderFrom(p, c, j + 1)
Render(p, c) == RenderFrom(p, c, 1) \o <<It("NL", "", "")>>

\* the tokenizer machine: one item per step.  z = [out, cur, incom]
Flush(z) == IF z.cur = <<>> THEN z ELSE [z EXCEPT !.out = Append(@, z.cur), !.cur = <<>>]
Norm(it) == CASE it.t = "MN" -> <<"MN", it.a>> [] it.t = "REG" -> <<"REG", it.a>> [] it.t = "NUM" -> <<"NUM", it.b>>
              [] it.t = "CHR" -> <<"CHR", it.b>> [] it.t = "STR" -> <<"STR", 0>> [] it.t = "STRL" -> <<"STRL", 0>> [] it.t = "STRT" -> <<"STRT", 0>>
              [] it.t \in {"SYM", "OP", "WORD"} -> <<it.t, it.a>> [] it.t \in {"PLUS", "LBR", "RBR"} -> <<it.t, "">> [] it.t = "DSYM" -> <<"DSYM", it.b>>
              [] it.t = "REF" -> <<"REF", it.a>> [] it.t = "LAB" -> <<"LAB", it.a>> [] it.t = "DIR" -> <<"DIR", it.a>> [] OTHER -> <<"?", "">>
TokStep(z, it) ==
    IF it.t = "NL" THEN [Flush(z) EXCEPT !.incom = FALSE]
    ELSE IF z.incom THEN z                                   \* comment text runs to the end of the line
    ELSE CASE it.t = "COM" -> [Flush(z) EXCEPT !.incom = TRUE]
           [] it.t = "BL" -> z                               \* blanks only separate
           [] it.t = "COMMA" -> z
           [] it.t = "LAB" -> [Flush(z) EXCEPT !.out = Append(@, <<Norm(it)>>)]
           [] it.t \in {"MN", "DIR"} -> [Flush(z) EXCEPT !.cur = <<Norm(it)>>]   \* an instruction ends where the next begins
           [] OTHER -> [z EXCEPT !.cur = Append(@, Norm(it))]
Tokenize(items) == FoldLeft(TokStep, [out |-> <<>>, cur |-> <<>>, incom |-> FALSE], items).out

\* the statement list in the tokenizer's normal form
NormByte(a, b) == <<<<"DIR", ".byte">>, a, b>>
NormStmts(s, j) ==              \* the tokenizer's statements for one abstract statement (several for the preprocessor blocks)
    CASE s.k = "lab" -> << <<<<"LAB", s.n>>>> >>
      [] s.k = "i0"  -> << <<<<"MN", "nop">>>> >>
      [] s.k = "i1n" -> << <<<<"MN", "ld8">>, <<"NUM", s.v>>>> >>
      [] s.k = "i1l" -> << <<<<"MN", "ld16">>, <<"REF", s.n>>>> >>
      [] s.k = "i1r" -> << <<<<"MN", "mov">>, <<"REG", s.n>>>> >>
      [] s.k = "i1c" -> << <<<<"MN", "ld8">>, <<"CHR", s.v>>>> >>
      [] s.k = "brx" -> << <<<<"MN", "bra">>, <<"REF", s.n>>, <<"PLUS", "">>, <<"NUM", 1>>>> >>
      [] s.k = "ldo" -> << <<<<"MN", "ldo">>, <<"LBR", "">>, <<"REG", "a">>, <<"PLUS", "">>, <<"NUM", 2>>, <<"RBR", "">>>> >>
      [] s.k = "str" -> << <<<<"DIR", ".cstr">>, <<"STR", 0>>>> >>
      [] s.k = "strg" -> << <<<<"DIR", ".cstr">>, <<"STRL", 0>>>> >>
      [] s.k = "strt" -> << <<<<"DIR", ".cstr">>, <<"STRT", 0>>>> >>
      [] s.k = "cif" -> << <<<<"DIR", "#if">>, <<"SYM", "MODE">>, <<"OP", "==">>, <<"WORD", IF s.n = "eq" THEN "fast" ELSE "slow">>>>,
                           NormByte(<<"NUM", s.v>>, <<"NUM", s.v>>), <<<<"DIR", "#else">>>>, NormByte(<<"NUM", s.w>>, <<"NUM", s.w>>),
                           <<<<"DIR", "#endif">>>> >>
      [] s.k = "cel" -> << <<<<"DIR", "#if">>, <<"SYM", "MODE">>, <<"OP", "==">>, <<"WORD", "slow">>>>, NormByte(<<"NUM", s.v>>, <<"NUM", s.v>>),
                           <<<<"DIR", "#elif">>, <<"SYM", "MODE">>, <<"OP", "==">>, <<"WORD", "fast">>>>, NormByte(<<"NUM", s.w>>, <<"NUM", s.w>>),
                           <<<<"DIR", "#else">>>>, NormByte(<<"NUM", 0>>, <<"NUM", 0>>), <<<<"DIR", "#endif">>>> >>
      [] s.k = "def" -> << <<<<"DIR", "#define">>, <<"DSYM", j>>, <<"NUM", s.v>>>>, NormByte(<<"DSYM", j>>, <<"DSYM", j>>) >>
      [] s.k = "dft" -> << <<<<"DIR", "#define">>, <<"DSYM", j>>, <<"WORD", "fast">>>>,
                           <<<<"DIR", "#if">>, <<"DSYM", j>>, <<"OP", "==">>, <<"WORD", "fast">>>>,
                           NormByte(<<"NUM", s.v>>, <<"NUM", s.v>>), <<<<"DIR", "#else">>>>, NormByte(<<"NUM", s.w>>, <<"NUM", s.w>>),
                           <<<<"DIR", "#endif">>>> >>
      [] s.k = "lin" -> << <<<<"MN", "ldn">>, <<"LBR", "">>, <<"NUM", 5>>, <<"RBR", "">>>> >>
      [] s.k = "ifd" -> << <<<<"DIR", "#ifdef">>, <<"SYM", "MODE">>>>, NormByte(<<"NUM", s.v>>, <<"NUM", s.v>>), <<<<"DIR", "#endif">>>> >>
      [] OTHER       -> << NormByte(<<"NUM", s.v>>, <<"NUM", s.w>>) >>
RECURSIVE NormFrom(_, _)
NormFrom(p, j) == IF j > Len(p) THEN <<>> ELSE NormStmts(p[j], j) \o NormFrom(p, j + 1)
NormProg(p) == NormFrom(p, 1)

\* what P assembles to on the carrier ISA (labels are addresses; little endian 16 bit operands)
Size(s) == CASE s.k = "lab" -> 0 [] s.k = "i0" -> 1 [] s.k \in {"i1l", "ldo"} -> 3 [] s.k \in {"str", "strt"} -> 4 [] s.k = "strg" -> 9 [] OTHER -> 2
AddrOf(p, j) == FoldLeft(LAMBDA acc, s : acc + Size(s), 0, SubSeq(p, 1, j - 1))
LabelAddr(p, n) == LET ds == {j \in 1..Len(p) : p[j].k = "lab" /\ p[j].n = n} IN IF ds = {} THEN -1 ELSE AddrOf(p, CHOOSE j \in ds : TRUE)
\* at: the statement's own address (the relative branch needs it)
StmtBytes(p, s, at) ==
    CASE s.k = "lab" -> <<>>
      [] s.k = "brx" -> <<216, (LabelAddr(p, s.n) + 1 - at + 256) % 256>>
      [] s.k = "ldo" -> <<208, 1, 2>> [] s.k = "i0" -> <<234>> [] s.k = "i1n" -> <<168, s.v>>
      [] s.k = "i1l" -> <<182, LabelAddr(p, s.n) % 256, LabelAddr(p, s.n) \div 256>>
      [] s.k = "i1r" -> <<192, IF s.n = "a" THEN 1 ELSE 2>>
      [] s.k = "i1c" -> <<168, s.v>>
      [] s.k = "str" -> <<97, 34, 98, 0>>
      [] s.k = "strg" -> <<103, 108, 111, 98, 49, 58, 32, 98, 0>>
      [] s.k = "strt" -> <<97, 9, 98, 0>>               \* "a<TAB>b": a tab character inside a string is data, wherever the string starts
      [] s.k = "cif" -> IF s.n = "eq" THEN <<s.v, s.v>> ELSE <<s.w, s.w>>     \* MODE is fast: the texts are compared
      [] s.k \in {"def", "ifd", "dft"} -> <<s.v, s.v>>
      [] s.k = "lin" -> <<209, 5>>
      [] s.k = "cel" -> <<s.w, s.w>>
      [] OTHER -> <<s.v, s.w>>
\* the local label l1 lives in the region opened by the global label g1: g1 has to come before its definition and uses
LocalOk(p) == \A j \in 1..Len(p) : (p[j].n = "l1" /\ p[j].k \in {"lab", "i1l", "brx"}) =>
                  \E i \in 1..(j - 1) : p[i].k = "lab" /\ p[i].n = "g1"
WellFormed(p) == /\ \A j \in 1..Len(p) : p[j].k \in {"i1l", "brx"} => LabelAddr(p, p[j].n) >= 0
                 /\ LocalOk(p)
                 /\ \A i, j \in 1..Len(p) : (i # j /\ p[i].k = "lab" /\ p[j].k = "lab") => p[i].n # p[j].n
Bytes(p) == FoldLeft(LAMBDA acc, s : acc \o StmtBytes(p, s, Len(acc)), <<>>, p)

Init == prog = <<>> /\ sty = <<>>
Next == /\ Len(prog) < MaxLen
        /\ \E s \in Stmts, y \in Styles : prog' = Append(prog, s) /\ sty' = Append(sty, y)
Spec == Init /\ [][Next]_vars

RoundTrip == Tokenize(Render(prog, sty)) = NormProg(prog)

ItemsJ(items) == [i \in 1..Len(items) |-> <<items[i].t, items[i].a, ToString(items[i].b)>>]
Emit == (prog # <<>> /\ WellFormed(prog)) => PrintT(<<"EMIT", ToJson([items |-> ItemsJ(Render(prog, sty)), bytes |-> Bytes(prog), n |-> Len(prog)])>>)
=============================================================================
