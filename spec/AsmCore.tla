----------------------------- MODULE AsmCore -----------------------------
(***************************************************************************)
(* The composed bespokeasm pipeline as one specification.                   *)
(*                                                                         *)
(*   read phase   one step per source line: condition stack, mute counter, *)
(*                symbol table, zone table, current zone, label scope      *)
(*                (file, local region), include stack -> line objects      *)
(*   pass 1       one step per compilable line object: zone cursors,       *)
(*                addresses, sizes, label binding                          *)
(*   sort         stable by address (predefined data blocks appended)      *)
(*   pass 2       one step per line object: bytes, adjacent overlap check  *)
(*   image        one step per address of the window                       *)
(*                                                                         *)
(* Every phase is a step FUNCTION over a state record (the implementation  *)
(* is deterministic), so the same operators serve three uses:              *)
(*   - the generative instances (MC_xx):  TLC appends abstract lines from an *)
(*     alphabet, i.e. enumerates every program up to MaxLen lines;         *)
(*   - the trace specifications (Trace_xx):  one logged event per step;      *)
(*   - relational properties (Run(x) = Run(y)) as ordinary invariants.     *)
(*                                                                         *)
(* Abstract lines are records [k, n, a, b]: kind, a name, two integers.    *)
(*   lab n            address label (n names its scope class, see Cls)     *)
(*   alias n          #define n SYM1: n stands for the symbol S1 (late binding)    *)
(*   ustr / wstr / rstr  .cstr "\u0141" / .2byte "AB" / the embedded string "é"  *)
(*   labreg / labkw   a label that is a register name / assembler keyword  *)
(*   const n a        constant n = a                                       *)
(*   i1               one-byte instruction                                 *)
(*   m2               a macro of two 4-bit instruction steps (two bytes)    *)
(*   ustr             .cstr with one character beyond 8 bits: one byte (its *)
(*                    low byte) and the terminator                         *)
(*   i2 n a / i3 n a  opcode + 8 / 16 bit operand: label or symbol n, or   *)
(*                    literal a when n = ""                                *)
(*   byte n a b       b data bytes: (n or a), a+1, a+2, ...                *)
(*   fill a b         a copies of b;  zero a;  zuntil a                    *)
(*   org a            absolute origin (GLOBAL); orgz n a: zone n's start+a *)
(*   orgl n a         origin given by an expression over a label: .org n+a *)
(*                    (the label has to be bound earlier in pass 1)        *)
(*   zone n           select zone;  align a (0: default page size)         *)
(*   mute / unmute                                                         *)
(*   ifdef n / ifndef n / if n a (#if n == a) / ifnz n (#if n)             *)
(*   elif n a / else / endif / define n a                                  *)
(*   mkzone n a b     #create_memzone n a b                                *)
(*   incb / ince      the lines between them live in an included file      *)
(***************************************************************************)
EXTENDS Integers, Sequences, FiniteSets, TLC, Json, SequencesExt, FiniteSetsExt, Functions

CONSTANTS
    AddrBits,       \* address width
    Origin,         \* default origin (GLOBAL cursor at start)
    PageSize,       \* default page size of .align
    PreZones,       \* sequence of [n, s, e]: predefined zones (may redefine GLOBAL)
    PreData,        \* sequence of [n, a, v, sz]: predefined data blocks
    InitDefs,       \* sequence of <<name, value>>: symbols from the ISA definition / command line
    WinStart, WinEnd, Fill      \* image window; WinEnd = -1 means "no end given"

Undef == -99            \* symbol / label / zone "not defined"
AliasS1 == -77          \* a symbol defined as the NAME of symbol S1 (#define S3 S1): its value is whatever S1 stands for when it is used
Val(defs, n) == IF defs[n] = AliasS1 THEN defs["S1"] ELSE defs[n]
NoEnd == -1             \* cfg files cannot write -1: use  WinEnd <- NoEnd
SymNames  == {"S1", "S2", "S3", "S4", "S5", "S6", "S7", "S8"}
ZoneNames == {"GLOBAL", "z1", "z2", "z3", "z4", "z5", "z6", "z7", "z8", "z9", "z10", "z11", "z12"}

\* scope class of a name: global, file or local ("k.." are constants)
Cls(n) == CASE n \in {"g1", "g2", "g3", "kg1", "kg2", "pd1", "pd2", "pc1", "rg"} -> "g"
            [] n \in {"f1", "f2", "kf1"} -> "f"
            [] n \in {"l1", "l2"} -> "l"
            [] OTHER -> "g"

Pow2(n) == 2 ^ n
MaxI(a, b) == IF a >= b THEN a ELSE b
MinI(a, b) == IF a <= b THEN a ELSE b
Mod256(v) == v % 256

L(k, n, a, b) == [k |-> k, n |-> n, a |-> a, b |-> b]

---------------------------------------------------------------------------
(* Condition stack (C08).  An entry records, decided once when its         *)
(* directive is reached: sel - this branch is selected; done - some branch *)
(* of the chain has been selected; par - the enclosing context was active; *)
(* els - the chain has had its #else.                                      *)

Active(stk) == stk = <<>> \/ (Last(stk).par /\ Last(stk).sel)

CondKinds == {"ifdef", "ifndef", "if", "ifnz", "ifx", "elif", "elifx", "else", "endif", "mute", "unmute"}
\* ifx / elifx: trace use - a condition whose truth value was recorded (field a = 1 when it held)
OpenKinds == {"ifdef", "ifndef", "if", "ifnz", "ifx"}

Holds(l, defs) ==
    CASE l.k = "ifdef"  -> defs[l.n] # Undef
      [] l.k = "ifndef" -> defs[l.n] = Undef
      [] l.k \in {"if", "elif"} -> Val(defs, l.n) = l.a
      [] l.k = "ifnz"   -> Val(defs, l.n) # 0
      [] l.k \in {"ifx", "elifx"} -> l.a = 1
      [] OTHER -> FALSE

\* is the condition of l evaluated if l is reached now?  (needed to keep the generators away from the
\* under-specified "undefined symbol inside #if")
Evaluated(l, stk) ==
    CASE l.k \in OpenKinds -> Active(stk)
      [] l.k \in {"elif", "elifx"} -> stk # <<>> /\ ~Last(stk).els /\ Last(stk).par /\ ~Last(stk).done
      [] OTHER -> FALSE

\* returns [stk, mute, err]
CondStep(l, stk, mute, defs) ==
    CASE l.k \in OpenKinds ->
            LET par == Active(stk)
                c   == par /\ Holds(l, defs)
            IN  [stk |-> Append(stk, [sel |-> c, done |-> c, par |-> par, els |-> FALSE]), mute |-> mute, err |-> ""]
      [] l.k \in {"elif", "elifx"} ->
            IF stk = <<>> THEN [stk |-> stk, mute |-> mute, err |-> "dangling"]
            ELSE LET t == Last(stk) IN
                 IF t.els THEN [stk |-> stk, mute |-> mute, err |-> "dangling"]
                 ELSE LET c == t.par /\ ~t.done /\ Holds(l, defs) IN
                      [stk |-> Append(Front(stk), [sel |-> c, done |-> t.done \/ c, par |-> t.par, els |-> FALSE]),
                       mute |-> mute, err |-> ""]
      [] l.k = "else" ->
            IF stk = <<>> THEN [stk |-> stk, mute |-> mute, err |-> "dangling"]
            ELSE LET t == Last(stk) IN
                 IF t.els THEN [stk |-> stk, mute |-> mute, err |-> "dangling"]
                 ELSE [stk |-> Append(Front(stk), [sel |-> t.par /\ ~t.done, done |-> TRUE, par |-> t.par, els |-> TRUE]),
                       mute |-> mute, err |-> ""]
      [] l.k = "endif" ->
            IF stk = <<>> THEN [stk |-> stk, mute |-> mute, err |-> "dangling"]
            ELSE [stk |-> Front(stk), mute |-> mute, err |-> ""]
      [] l.k = "mute"   -> [stk |-> stk, mute |-> IF Active(stk) THEN mute + 1 ELSE mute, err |-> ""]
      [] l.k = "unmute" -> [stk |-> stk, mute |-> IF Active(stk) /\ mute > 0 THEN mute - 1 ELSE mute, err |-> ""]
      [] OTHER -> [stk |-> stk, mute |-> mute, err |-> "internal"]

---------------------------------------------------------------------------
(* Zones (C05)                                                             *)

GlobalPre == SelectSeq(PreZones, LAMBDA z : z.n = "GLOBAL")
GlobalS == IF GlobalPre = <<>> THEN 0 ELSE GlobalPre[1].s
GlobalE == IF GlobalPre = <<>> THEN Pow2(AddrBits) - 1 ELSE GlobalPre[1].e

NoZone == [d |-> FALSE, s |-> 0, e |-> 0]
InitZtab ==
    LET base == [z \in ZoneNames |-> IF z = "GLOBAL" THEN [d |-> TRUE, s |-> GlobalS, e |-> GlobalE] ELSE NoZone]
        Put(t, z) == [t EXCEPT ![z.n] = [d |-> TRUE, s |-> z.s, e |-> z.e]]
    IN  FoldLeft(Put, base, PreZones)

\* a zone definition that can never be accepted, predefined or not
ZoneIllFormed(s, e) == s > e \/ e > Pow2(AddrBits) - 1
PreZonesOk == \A i \in 1..Len(PreZones) : ~ZoneIllFormed(PreZones[i].s, PreZones[i].e)

AlignUp(a, p) == IF a % p = 0 THEN a ELSE a + (p - (a % p))

---------------------------------------------------------------------------
(* Read phase.  rd is the reader state record.                             *)

InitDefsFn == LET Put(f, d) == [f EXCEPT ![d[1]] = d[2]]
              IN  FoldLeft(Put, [s \in SymNames |-> Undef], InitDefs)

InitReader ==
    [ defs |-> InitDefsFn, cstk |-> <<>>, mute |-> 0,
      ztab |-> InitZtab, zone |-> "GLOBAL",
      file |-> 1, nfile |-> 1, region |-> 0, nreg |-> 0,
      fstk |-> <<>>,            \* include stack: [file, region, zone, cstk, mute]
      lines |-> <<>>,           \* line objects
      consts |-> <<>>,          \* constants bound while reading: [key, v]
      pc |-> 0,                 \* number of source lines consumed
      \* an ISA definition with an ill-formed predefined zone is rejected before any line is read
      status |-> IF PreZonesOk THEN "run" ELSE "err", why |-> IF PreZonesOk THEN "" ELSE "prezone" ]

Fail(r, w) == [r EXCEPT !.status = "err", !.why = w]

ScopeKey(n, file, region) ==
    CASE Cls(n) = "g" -> <<"g", n, 0, 0>>
      [] Cls(n) = "f" -> <<"f", n, file, 0>>
      [] OTHER        -> <<"l", n, file, region>>

HasKey(tab, key) == \E i \in 1..Len(tab) : tab[i].key = key

\* the line object created for source line i; comp: it is compiled; muted: its bytes are not emitted
LineObj(i, l, comp, muted, zone, file, region) ==
    [i |-> i, k |-> l.k, n |-> l.n, a |-> l.a, b |-> l.b, comp |-> comp, muted |-> muted,
     zone |-> zone, file |-> file, region |-> region]

\* operand substitution of a defined preprocessor symbol (whole word; C09 is decided in Symbols.tla)
\* kinds whose operand is a reference (or a literal): brl is a branch whose field carries target - own address, mbr a macro whose
\* MIDDLE step is that branch (nop / bra @ARG(0) / nop): the step's own address is the macro's address + 1
\* fillr: .fill <a>, <name> - a fill whose VALUE is a reference; with a count of 0 it emits nothing, and its reference still has to resolve
RefKinds == {"i2", "i3", "byte", "brl", "mbr", "fillr"}
Subst(l, defs) ==
    IF l.k \in RefKinds /\ l.n \in SymNames /\ defs[l.n] # Undef
    THEN [l EXCEPT !.n = "", !.a = Val(defs, l.n)] ELSE l

AddLine(r, lo) == [r EXCEPT !.lines = Append(@, lo)]

ReadStep0(r, l0) ==
    LET i == r.pc + 1 IN        \* position of the line in the program
    IF l0.k \in CondKinds THEN
        LET c == CondStep(l0, r.cstk, r.mute, r.defs) IN
        IF c.err # "" THEN Fail(r, c.err)
        ELSE AddLine([r EXCEPT !.cstk = c.stk, !.mute = c.mute],
                     LineObj(i, l0, TRUE, FALSE, r.zone, r.file, r.region))
    ELSE IF l0.k = "ince" THEN
        \* end of an included file: the includer's file scope, local region, zone and condition stack
        \* continue unchanged; the mute counter is NOT per file (muting carries across, as if pasted)
        IF r.fstk = <<>> THEN Fail(r, "internal")
        ELSE LET f == Last(r.fstk) IN
             [r EXCEPT !.fstk = Front(@), !.file = f.file, !.region = f.region, !.zone = f.zone,
                       !.cstk = f.cstk]
    ELSE IF ~Active(r.cstk) THEN
        \* a line in a branch that is not selected contributes nothing
        IF l0.k = "incb" THEN
             \* an excluded #include is not read at all: its lines are skipped up to the matching ince
             \* (generators only produce this with an empty included file)
             [r EXCEPT !.fstk = Append(@, [file |-> r.file, region |-> r.region, zone |-> r.zone,
                                            cstk |-> r.cstk, mute |-> r.mute])]
        ELSE AddLine(r, LineObj(i, l0, FALSE, r.mute > 0, r.zone, r.file, r.region))
    ELSE
      LET l == Subst(l0, r.defs)
          muted == r.mute > 0
      IN
      CASE l.k \in {"define", "alias"} ->
              IF r.defs[l.n] # Undef THEN Fail(r, "redefine")
              ELSE AddLine([r EXCEPT !.defs[l.n] = IF l.k = "alias" THEN AliasS1 ELSE l.a], LineObj(i, l, TRUE, muted, r.zone, r.file, r.region))
        [] l.k = "mkzone" ->
              IF r.ztab[l.n].d THEN Fail(r, "zonedup")
              ELSE IF l.a < r.ztab["GLOBAL"].s \/ l.b > r.ztab["GLOBAL"].e \/ ZoneIllFormed(l.a, l.b)
                   THEN Fail(r, "zonebad")
              ELSE AddLine([r EXCEPT !.ztab[l.n] = [d |-> TRUE, s |-> l.a, e |-> l.b]],
                           LineObj(i, l, TRUE, muted, r.zone, r.file, r.region))
        [] l.k = "incb" ->
              \* a fresh file scope under the global scope; the included file starts in GLOBAL with its
              \* own (empty) condition stack; muting continues
              [r EXCEPT !.fstk = Append(@, [file |-> r.file, region |-> r.region, zone |-> r.zone,
                                             cstk |-> r.cstk, mute |-> r.mute]),
                        !.file = r.nfile + 1, !.nfile = r.nfile + 1, !.region = 0, !.zone = "GLOBAL",
                        !.cstk = <<>>]
        [] l.k \in {"labreg", "labkw"} -> Fail(r, "badlabel")
        [] l.k = "lab" ->
              IF Cls(l.n) = "l"
              THEN AddLine(r, LineObj(i, l, TRUE, muted, r.zone, r.file, r.region))
              ELSE \* a non-local label opens a new local region
                   AddLine([r EXCEPT !.region = r.nreg + 1, !.nreg = r.nreg + 1],
                           LineObj(i, l, TRUE, muted, r.zone, r.file, r.nreg + 1))
        [] l.k = "const" ->
              LET key == ScopeKey(l.n, r.file, r.region) IN
              IF HasKey(r.consts, key) THEN Fail(r, "duplicate")
              ELSE AddLine([r EXCEPT !.consts = Append(@, [key |-> key, v |-> l.a])],
                           LineObj(i, l, TRUE, muted, r.zone, r.file, r.region))
        [] l.k \in {"org", "orgl"} ->
              \* (the label of orgl is looked up from the file scope: the directive has reset the local region)
              AddLine([r EXCEPT !.zone = "GLOBAL", !.region = 0],
                      LineObj(i, l, TRUE, muted, "GLOBAL", r.file, 0))
        [] l.k \in {"orgz", "zone"} ->
              IF ~r.ztab[l.n].d THEN Fail(r, "nozone")
              ELSE AddLine([r EXCEPT !.zone = l.n, !.region = 0], LineObj(i, l, TRUE, muted, l.n, r.file, 0))
        [] OTHER -> AddLine(r, LineObj(i, l, TRUE, muted, r.zone, r.file, r.region))

\* lzone / lorgz / lorg: a zone selection or origin with a (never referenced, uniquely named) label written in front of it on the
\* same source line.  The label opens a region that the directive closes again: the line does exactly what the directive does.
Undecorated(l) == CASE l.k = "lzone" -> [l EXCEPT !.k = "zone"] [] l.k = "lorgz" -> [l EXCEPT !.k = "orgz"]
                    [] l.k = "lorg" -> [l EXCEPT !.k = "org"] [] OTHER -> l
ReadStep(r, l) == [ReadStep0(r, Undecorated(l)) EXCEPT !.pc = r.pc + 1]

RECURSIVE ReadAll(_, _, _)
ReadAll(r, p, j) == IF j > Len(p) \/ r.status # "run" THEN r ELSE ReadAll(ReadStep(r, p[j]), p, j + 1)

---------------------------------------------------------------------------
(* Pass 1 (C02, C05): addresses, sizes, zone cursors, label binding.       *)

ByteKinds == {"fillr", "brl", "mbr", "i1", "m2", "ustr", "wstr", "rstr", "i2", "i3", "byte", "fill", "zero", "zuntil", "pdata", "raw"}

SizeOf(lo, addr) ==
    CASE lo.k = "i1" -> 1 [] lo.k = "i2" -> 2 [] lo.k = "i3" -> 3 [] lo.k = "m2" -> 2 [] lo.k = "ustr" -> 2 [] lo.k = "brl" -> 2 [] lo.k = "mbr" -> 4
      [] lo.k = "wstr" -> 4             \* .2byte "AB": every character of the string is a value of the directive's width
      [] lo.k = "rstr" -> 3             \* an embedded string "é" written with the character itself: its two UTF-8 bytes and the terminator
      [] lo.k = "byte" -> lo.b
      [] lo.k \in {"fill", "zero", "fillr"} -> lo.a
      [] lo.k = "zuntil" -> IF lo.a >= addr THEN lo.a - addr + 1 ELSE 0
      [] lo.k = "raw" -> lo.b            \* trace use: a byte line of a real ISA, its size as recorded
      [] OTHER -> 0

Lookup(tab, n, file, region) ==
    LET key == ScopeKey(n, file, region)
        hit == SelectSeq(tab, LAMBDA e : e.key = key)
    IN  IF hit = <<>> \/ (Cls(n) = "l" /\ region = 0) THEN Undef ELSE hit[1].v


InitCur(ztab) == [z \in ZoneNames |-> IF z = "GLOBAL" THEN Origin ELSE ztab[z].s]

\* p: [cur, objs, labs, status, why]; ztab is the zone table at the END of reading (zones exist from
\* their creation on; pass 1 runs after all reading)
P1Step(p, lo, ztab) ==
    LET z    == lo.zone
        zr   == ztab[z]
        gs   == ztab["GLOBAL"].s
        ge   == ztab["GLOBAL"].e
        page == IF lo.a = 0 THEN PageSize ELSE lo.a
        lv   == IF lo.k = "orgl" THEN Lookup(p.labs, lo.n, lo.file, lo.region) ELSE 0
        addr == CASE lo.k = "org"   -> lo.a
                  [] lo.k = "orgl"  -> lv + lo.a
                  [] lo.k = "orgz"  -> zr.s + lo.a
                  [] lo.k = "align" -> AlignUp(p.cur[z], page)
                  [] OTHER -> p.cur[z]
        size == SizeOf(lo, addr)
        nxt  == addr + size
        obj  == [i |-> lo.i, k |-> lo.k, n |-> lo.n, a |-> lo.a, b |-> lo.b, muted |-> lo.muted, zone |-> z,
                 file |-> lo.file, region |-> lo.region, addr |-> addr, size |-> size]
        key  == ScopeKey(lo.n, lo.file, lo.region)
    IN
    IF lo.k = "orgl" /\ lv = Undef THEN [p EXCEPT !.status = "err", !.why = "unresolved"]     \* the label is not bound yet
    ELSE IF lo.k \in {"org", "orgl", "orgz"} /\ (addr < gs \/ addr > ge) THEN [p EXCEPT !.status = "err", !.why = "orgrange"]
    ELSE IF size < 0 THEN [p EXCEPT !.status = "err", !.why = "negsize"]
    ELSE IF nxt < zr.s \/ nxt > zr.e + 1 THEN [p EXCEPT !.status = "err", !.why = "zonebounds"]
    ELSE IF size > 0 /\ (addr < gs \/ nxt - 1 > ge) THEN [p EXCEPT !.status = "err", !.why = "globalbounds"]
    ELSE IF lo.k = "lab" /\ Cls(lo.n) = "l" /\ lo.region = 0 THEN [p EXCEPT !.status = "err", !.why = "orphanlocal"]
    ELSE IF lo.k = "lab" /\ HasKey(p.labs, key) THEN [p EXCEPT !.status = "err", !.why = "duplicate"]
    ELSE [p EXCEPT !.cur[z] = nxt, !.objs = Append(@, obj),
                   !.labs = IF lo.k = "lab" THEN Append(@, [key |-> key, v |-> addr]) ELSE @]

RECURSIVE P1All(_, _, _, _)
P1All(p, ls, j, ztab) ==
    IF j > Len(ls) \/ p.status # "ok" THEN p
    ELSE P1All(IF ls[j].comp THEN P1Step(p, ls[j], ztab) ELSE p, ls, j + 1, ztab)

PreDataLabs == [j \in 1..Len(PreData) |-> [key |-> <<"g", PreData[j].n, 0, 0>>, v |-> PreData[j].a]]
PreDataObjs == [j \in 1..Len(PreData) |->
                   [i |-> 0, k |-> "pdata", n |-> PreData[j].n, a |-> PreData[j].v, b |-> 0, muted |-> FALSE,
                    zone |-> "GLOBAL", file |-> 0, region |-> 0, addr |-> PreData[j].a, size |-> PreData[j].sz]]

---------------------------------------------------------------------------
(* Sort: stable insertion sort by address.                                 *)

RECURSIVE InsertSorted(_, _)
InsertSorted(s, x) ==
    IF s = <<>> THEN <<x>>
    ELSE IF Last(s).addr <= x.addr THEN Append(s, x)
    ELSE Append(InsertSorted(Front(s), x), Last(s))

SortByAddr(objs) == FoldLeft(InsertSorted, <<>>, objs)
\* the same order from the library sort (used for long traces, where the recursion above is too deep);
\* Asm!SortIsStableInsertion checks that the two agree
SortByAddrLib(objs) == SortSeq(objs, LAMBDA x, y : x.addr < y.addr)

---------------------------------------------------------------------------
(* Pass 2 (C02, C04, C06): bytes and the adjacent overlap check.           *)

\* value of an operand: a label / constant reference or a literal
\* "rg" is spelled like a register: a register name is never a label reference, even when the ISA definition predefines data of that name
OperandVal(o, tab) == IF o.n = "" THEN o.a ELSE IF o.n = "rg" THEN Undef ELSE Lookup(tab, o.n, o.file, o.region)

Fits(v, w) == -(Pow2(w - 1)) <= v /\ v <= Pow2(w) - 1

\* [bytes, err]
BytesOf(o, tab) ==
    LET v == OperandVal(o, tab) IN
    CASE o.k = "i1" -> [bytes |-> <<234>>, err |-> ""]
      [] o.k = "ustr" -> [bytes |-> <<65, 0>>, err |-> ""]
      [] o.k = "wstr" -> [bytes |-> <<65, 0, 66, 0>>, err |-> ""]       \* little-endian carrier
      [] o.k = "rstr" -> [bytes |-> <<195, 169, 0>>, err |-> ""]
      [] o.k = "m2" -> [bytes |-> <<16, 32>>, err |-> ""]      \* each 4-bit step is padded to a byte of its own
      [] o.k = "i2" -> IF v = Undef THEN [bytes |-> <<>>, err |-> "unresolved"]
                       ELSE IF ~Fits(v, 8) THEN [bytes |-> <<>>, err |-> "fit"]
                       ELSE [bytes |-> <<168, Mod256(v)>>, err |-> ""]
      \* the field of a relative branch is the distance from the address pass 1 assigned to the branch itself
      [] o.k = "brl" -> IF v = Undef THEN [bytes |-> <<>>, err |-> "unresolved"]
                        ELSE IF ~Fits(v - o.addr, 8) THEN [bytes |-> <<>>, err |-> "fit"]
                        ELSE [bytes |-> <<216, Mod256(v - o.addr)>>, err |-> ""]
      [] o.k = "mbr" -> IF v = Undef THEN [bytes |-> <<>>, err |-> "unresolved"]
                        ELSE IF ~Fits(v - (o.addr + 1), 8) THEN [bytes |-> <<>>, err |-> "fit"]
                        ELSE [bytes |-> <<234, 216, Mod256(v - (o.addr + 1)), 234>>, err |-> ""]
      [] o.k = "i3" -> IF v = Undef THEN [bytes |-> <<>>, err |-> "unresolved"]
                       ELSE IF ~Fits(v, 16) THEN [bytes |-> <<>>, err |-> "fit"]
                       ELSE [bytes |-> <<182, Mod256(v), Mod256((v % 65536) \div 256)>>, err |-> ""]
      [] o.k = "byte" -> IF v = Undef THEN [bytes |-> <<>>, err |-> "unresolved"]
                         ELSE [bytes |-> [j \in 1..o.b |-> Mod256(IF j = 1 THEN v ELSE o.a + j - 1)], err |-> ""]
      [] o.k = "fill" -> [bytes |-> [j \in 1..o.size |-> Mod256(o.b)], err |-> ""]
      [] o.k = "fillr" -> IF v = Undef THEN [bytes |-> <<>>, err |-> "unresolved"]
                          ELSE [bytes |-> [j \in 1..o.size |-> Mod256(v)], err |-> ""]
      [] o.k \in {"zero", "zuntil"} -> [bytes |-> [j \in 1..o.size |-> 0], err |-> ""]
      [] o.k = "pdata" -> [bytes |-> [j \in 1..o.size |-> Mod256(o.a)], err |-> ""]
      [] OTHER -> [bytes |-> <<>>, err |-> ""]

\* q: [outs, last, status, why]; last = index into outs of the previous byte line with size > 0 (0: none)
P2Step(q, o, tab) ==
    IF o.k \notin ByteKinds THEN [q EXCEPT !.outs = Append(@, [o EXCEPT !.zone = o.zone] @@ [bytes |-> <<>>])]
    ELSE LET g == BytesOf(o, tab) IN
         IF g.err # "" THEN [q EXCEPT !.status = "err", !.why = g.err]
         ELSE IF Len(g.bytes) # o.size THEN [q EXCEPT !.status = "err", !.why = "sizemismatch"]
         ELSE IF o.size > 0 /\ q.last # 0 /\ q.outs[q.last].addr + q.outs[q.last].size > o.addr
              THEN [q EXCEPT !.status = "err", !.why = "overlap"]
         ELSE [q EXCEPT !.outs = Append(@, o @@ [bytes |-> g.bytes]),
                        !.last = IF o.size > 0 THEN Len(q.outs) + 1 ELSE @]

RECURSIVE P2All(_, _, _, _)
P2All(q, objs, j, tab) ==
    IF j > Len(objs) \/ q.status # "ok" THEN q ELSE P2All(P2Step(q, objs[j], tab), objs, j + 1, tab)

---------------------------------------------------------------------------
(* Memory map and image (C03).                                             *)

Emitting(o) == o.k \in ByteKinds /\ ~o.muted /\ o.size > 0

MemOf(outs) ==
    LET Put(m, o) == IF Emitting(o) THEN [a \in o.addr..(o.addr + o.size - 1) |-> o.bytes[a - o.addr + 1]] @@ m ELSE m
    IN  FoldLeft(Put, <<>>, outs)

WinLast(mem) == IF WinEnd # -1 THEN WinEnd
                ELSE IF DOMAIN mem = {} THEN WinStart - 1 ELSE Max(DOMAIN mem)

\* the image loop as a machine: one address per step
RECURSIVE ImgLoop(_, _, _, _)
ImgLoop(addr, last, mem, acc) ==
    IF addr > last THEN acc
    ELSE ImgLoop(addr + 1, last, mem, Append(acc, IF addr \in DOMAIN mem THEN mem[addr] ELSE Fill))

ImageOf(mem) == ImgLoop(WinStart, WinLast(mem), mem, <<>>)

---------------------------------------------------------------------------
(* The whole run.                                                          *)

ErrRes(w) == [status |-> "err", why |-> w, objs |-> <<>>, labs |-> <<>>, image |-> <<>>, mem |-> <<>>, lines |-> <<>>]

Assemble(r) ==
    IF r.status # "run" THEN ErrRes(r.why)
    ELSE
    LET p0 == [cur |-> InitCur(r.ztab), objs |-> <<>>, labs |-> r.consts \o PreDataLabs, status |-> "ok", why |-> ""]
        p  == P1All(p0, r.lines, 1, r.ztab)
    IN  IF p.status # "ok" THEN [ErrRes(p.why) EXCEPT !.lines = r.lines]
        ELSE
        LET sorted == SortByAddr(p.objs \o PreDataObjs)
            q == P2All([outs |-> <<>>, last |-> 0, status |-> "ok", why |-> ""], sorted, 1, p.labs)
        IN  IF q.status # "ok" THEN [ErrRes(q.why) EXCEPT !.lines = r.lines, !.objs = p.objs, !.labs = p.labs]
            ELSE LET mem == MemOf(q.outs) IN
                 [status |-> "ok", why |-> "", objs |-> q.outs, labs |-> p.labs, image |-> ImageOf(mem),
                  mem |-> mem, lines |-> r.lines]

Run(p) == Assemble(ReadAll(InitReader, p, 1))
=============================================================================
