------------------------------ MODULE MC_Encode ------------------------------
EXTENDS Encode
\* operand codes use asymmetric bit patterns so that bit order and group order are visible
CodeVals == {9, 6}          \* 1001, 0110 (4 bits) / 3-bit codes use 5 = 101... kept to 4 bits here
OpsQuick ==
    { O(c, cv, 4, a, av, aw, al, aen) :
        c \in {"none", "pre", "suf"}, cv \in {9, 0}, a \in {"none", "arg"}, av \in {92, 0}, aw \in {8}, al \in BOOLEAN, aen \in {"def", "little"} }
    \cup { O(c, 6, 4, "arg", 2652, 12, al, aen) : c \in {"none", "pre", "suf"}, al \in BOOLEAN, aen \in {"def", "big", "little"} }
    \cup { O(c, 5, 3, "arg", -2, 5, FALSE, "def") : c \in {"pre", "suf"} }
    \* code-only operands whose low code bits have their top bit set (0110, 1110): as a composite code the index part is a negative number
    \cup { O(c, cv, 4, "none", 92, 8, FALSE, "def") : c \in {"pre", "suf"}, cv \in {6, 14} }
    \cup { O("none", 9, 4, a, av, 8, al, "def") : a \in {"rel", "relend"}, av \in {-3, 92}, al \in BOOLEAN }
    \cup { O("none", 9, 4, a, -700, 12, FALSE, aen) : a \in {"rel", "relend"}, aen \in {"def", "little"} }
    \cup { O("none", 9, 4, "slice", 2652, 12, al, aen) : al \in BOOLEAN, aen \in {"def", "little"} }
    \cup { O("none", 9, 4, "slice", 19, 5, FALSE, "def"), O("none", 9, 4, "slice", 172, 8, TRUE, "def") }
OpsOk(S) == { o \in S : ~(o.c = "none" /\ o.a = "none") /\ (o.c = "none" => o.cv = 9) /\ (o.a = "none" => (o.av = 92 /\ o.aw = 8 /\ ~o.al /\ o.aen = "def")) }
OpsQ == OpsOk(OpsQuick)
BasesQ == { Base(d, 181, 8, e, sp, 5, 4, ra, rc) : d \in {"big", "little"}, e \in {"def"}, sp \in BOOLEAN, ra \in BOOLEAN, rc \in BOOLEAN }
          \cup { Base(d, 11, 4, e, FALSE, 0, 4, ra, rc) : d \in {"big"}, e \in {"def", "little"}, ra \in BOOLEAN, rc \in BOOLEAN }
          \cup { Base("little", 2652, 12, e, TRUE, 2, 3, FALSE, TRUE) : e \in {"def", "big"} }
          \cup { Base(d, 181, 8, e, TRUE, 2748, 12, FALSE, FALSE) : d \in {"big", "little"}, e \in {"def", "big", "little"} }
          \cup { Base(d, 181, 8, e, TRUE, 4660, 16, TRUE, FALSE) : d \in {"big", "little"}, e \in {"def", "big", "little"} }
BasesT == { Base(d, v[1], v[2], e, sp, 5, 4, ra, rc) : d \in {"big", "little"}, v \in {<<181, 8>>, <<11, 4>>, <<2652, 12>>, <<46261, 16>>},
                e \in {"def", "big", "little"}, sp \in BOOLEAN, ra \in BOOLEAN, rc \in BOOLEAN }
=============================================================================
