------------------------------- MODULE MC_Ext -------------------------------
EXTENDS Ext
Pr(lead, w) == [w |-> w, lead |-> lead]
MnP == {"ld", "ldx", "ld.b", "mov"}
MaP == {"push2", "ldm"}
\* ah and b1 are registers that, as text, also look like numbers (AH is a hexadecimal literal with an H suffix, b1 a binary literal)
ReP == {"a", "ab", "sp", "ah", "b1"}
PrP == {"PCON", "buf"}
Words == {"ld", "ldx", "ld.b", "mov", "push2", "ldm", "a", "ab", "sp", "PCON", "buf",
          "LD", "Ld.B", "Mov", "MOV", "A", "SP", "Push2", "LDM", "ah", "AH", "b1", "B1", "b10", "ahh",
          "l", "ldxb", "ldxx", "ldb", "movx", "xmov", "abc", "s", "sp2", "push", "push22", "PCONX", "bu", "buffer", "pcon", "nothing", "x_1",
          "org", "byte", "fill", "define", "include"}
DotWords == {"org", "memzone", "align", "fill", "zero", "zerountil", "byte", "2byte", "4byte", "8byte", "cstr", "asciiz",
             "orgx", "by", "bytes", "ld", "define", "zer"}
HashWords == {"include", "require", "create_memzone", "define", "if", "elif", "else", "endif", "ifdef", "ifndef", "mute", "unmute", "emit",
              "defin", "ld", "org"}
AllProbes == {Pr("", w) : w \in Words} \cup {Pr(".", w) : w \in DotWords} \cup {Pr("#", w) : w \in HashWords}
=============================================================================
