----------------------------- MODULE MC_Symbols -----------------------------
EXTENDS Symbols
Repls == { <<"1">>, <<"BC">>, <<"AB">>, <<"AB", "+", "BC">> }
\* the last two replacement texts contain backslashes (an escaped tab inside a string, a doubled backslash)
ReplsWide == Repls \cup { <<"2">>, <<"ABC">>, <<"XAB">>, <<"(", "BC", "*", "2", ")">>, <<"\"x\\ty\"">>, <<"'\\\\'">> }
Uses == { U(<<"AB">>), U(<<"ABC", "+", "AB">>), U(<<"XAB", "+", "BC">>), U(<<"AB", "+", "BC", "+", "ABC">>) }
LinesCore == { D(n, r) : n \in {"AB", "BC", "ABC"}, r \in Repls } \cup Uses
LinesWide == { D(n, r) : n \in {"AB", "BC", "ABC", "XAB"}, r \in ReplsWide } \cup Uses \cup { U(<<"BC", "*", "XAB">>) }
NoDefs == <<>>
\* one symbol from the ISA definition, one from the command line (the harness decides which is which)
PreDefs == << [n |-> "BC", r |-> <<"7">>], [n |-> "XAB", r |-> <<"BC", "+", "1">>] >>
=============================================================================
