----------------------------- MODULE MC_Symbols -----------------------------
EXTENDS Symbols
Repls == { <<"1">>, <<"BC">>, <<"AB">>, <<"AB", "+", "BC">> }
\* the last two replacement texts contain backslashes (an escaped tab inside a string, a doubled backslash)
\* ... and one is a string with two consecutive blanks inside (the replacement text is what was written, blank for blank)
ReplsWide == Repls \cup { <<"2">>, <<"ABC">>, <<"XAB">>, <<"(", "BC", "*", "2", ")">>, <<"\"x\\ty\"">>, <<"'\\\\'">>, <<"\"a  b\"">> }
\* "ab" is an identifier that differs from the symbol AB only in letter case: it is not the symbol
Uses == { U(<<"AB", "+", "ab">>), U(<<"AB">>), U(<<"ABC", "+", "AB">>), U(<<"XAB", "+", "BC">>), U(<<"AB", "+", "BC", "+", "ABC">>) }
LinesCore == { D(n, r) : n \in {"AB", "BC", "ABC"}, r \in Repls } \cup Uses
LinesWide == { D(n, r) : n \in {"AB", "BC", "ABC", "XAB"}, r \in ReplsWide } \cup Uses \cup { U(<<"BC", "*", "XAB">>) }
NoDefs == <<>>
\* one symbol from the ISA definition, one from the command line (the harness decides which is which)
PreDefs == << [n |-> "BC", r |-> <<"7">>], [n |-> "XAB", r |-> <<"BC", "+", "1">>] >>
\* a symbol the ISA definition declares with an explicit null value: defined, with an empty replacement text
PreNull == << [n |-> "BC", r |-> <<>>] >>
=============================================================================
