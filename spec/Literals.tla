------------------------------ MODULE Literals ------------------------------
(***************************************************************************)
(* C07, literal notations: every supported notation denotes the            *)
(* mathematical value of its digit string.  TLC enumerates (notation,      *)
(* digit string) pairs and computes the positional value; the harness      *)
(* spells the literal and asks the real tokenizer / evaluator.              *)
(*   dec: 19      dollar: $1f      0x: 0x1f     H: 1fH                      *)
(*   pct: %101    b: b101          chr: 'c' (value = character code)       *)
(***************************************************************************)
EXTENDS Integers, Sequences, TLC, Json

CONSTANT MaxDigits
VARIABLES nota, ds

Notations == {"dec", "dollar", "0x", "H", "pct", "b", "chr"}
Base(n) == CASE n = "dec" -> 10 [] n \in {"dollar", "0x", "H"} -> 16 [] n \in {"pct", "b"} -> 2 [] OTHER -> 256
Digits(n) == CASE n = "dec" -> {0, 1, 7, 9}
               [] n \in {"dollar", "0x", "H"} -> {0, 1, 9, 10, 15}
               [] n \in {"pct", "b"} -> {0, 1}
               [] OTHER -> {32, 48, 59, 65, 97, 122, 126}      \* character codes: space 0 ; A a z ~
MaxLenOf(n) == CASE n = "chr" -> 1 [] n \in {"pct", "b"} -> MaxDigits + 2 [] OTHER -> MaxDigits

RECURSIVE Value(_, _)
Value(d, base) == IF d = <<>> THEN 0 ELSE Value(SubSeq(d, 1, Len(d) - 1), base) * base + d[Len(d)]

Init == nota \in Notations /\ ds = <<>>
Next == /\ Len(ds) < MaxLenOf(nota)
        /\ \E d \in Digits(nota) : ds' = Append(ds, d)
        /\ UNCHANGED nota
Spec == Init /\ [][Next]_<<nota, ds>>

\* a digit string of length k in base b denotes a value below b^k, and appending digit d multiplies by b and adds d
ValueBound == Value(ds, Base(nota)) < Base(nota) ^ Len(ds) \/ ds = <<>>
Positional == ds # <<>> => Value(ds, Base(nota)) = Value(SubSeq(ds, 1, Len(ds) - 1), Base(nota)) * Base(nota) + ds[Len(ds)]

Emit == ds # <<>> => PrintT(<<"EMIT", ToJson([n |-> nota, d |-> ds, v |-> Value(ds, Base(nota))])>>)
=============================================================================
