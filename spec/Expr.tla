-------------------------------- MODULE Expr --------------------------------
(***************************************************************************)
(* C07: numeric expressions.                                               *)
(*                                                                         *)
(* Two formulations over token strings:                                    *)
(*  (i)  the DESCENT MACHINE, one operator per grammar production, shaped  *)
(*       like the implementation's recursive-descent parser: returns       *)
(*       [v, nx] = value and next position;                                *)
(*  (ii) the SPLIT EVALUATOR, the property's own wording: an expression is *)
(*       split at the LAST depth-0 binary operator of the LOOSEST level    *)
(*       present (left associativity), else it is a unary minus, a byte    *)
(*       extraction, a parenthesis or an atom.                             *)
(* TLC checks DescentEqualsSplit on every token string up to MaxLen.       *)
(*                                                                         *)
(* Values are exact rationals <<num, den>>; the final result truncates     *)
(* toward zero.  Special results: Err (not a well-formed expression, or no *)
(* value: division by zero), Unspec (left open by the property: % with a   *)
(* negative operand, bitwise/shift on non-integers or negatives, negative  *)
(* shift count), Big (beyond the model's 32-bit integers; not compared).   *)
(***************************************************************************)
EXTENDS Integers, Sequences, FiniteSets, TLC, Json

CONSTANTS Tokens,     \* set of token records [t, v]
          MaxLen,
          Guided      \* TRUE: only extend viable prefixes of well-formed expressions (deeper, no malformed strings)

VARIABLE s
T(t, v) == [t |-> t, v |-> v]

Err == <<"err">>
Unspec == <<"unspec">>
Big == <<"big">>
Special(x) == x \in {Err, Unspec, Big}
Limit == 16777216          \* 2^24

Abs(a) == IF a < 0 THEN -a ELSE a
RECURSIVE Gcd(_, _)
Gcd(a, b) == IF b = 0 THEN a ELSE Gcd(b, a % b)
Norm(n, d) == IF Abs(n) > Limit \/ Abs(d) > Limit THEN Big
              ELSE LET g == Gcd(Abs(n), Abs(d)) IN
                   IF d < 0 THEN <<(-n) \div g, (-d) \div g>> ELSE <<n \div g, d \div g>>
IsInt(x) == x[2] = 1
Pow2(k) == 2 ^ k

\* propagate special results: Err dominates, then Unspec, then Big
Lift2(a, b, r) == IF a = Err \/ b = Err THEN Err
                  ELSE IF a = Unspec \/ b = Unspec THEN Unspec
                  ELSE IF a = Big \/ b = Big THEN Big ELSE r
Lift1(a, r) == IF Special(a) THEN a ELSE r

RECURSIVE BitOp(_, _, _, _)
BitOp(op, a, b, k) ==   \* a, b naturals; k = bit weight
    IF a = 0 /\ b = 0 THEN 0
    ELSE LET x == a % 2  y == b % 2
             bit == CASE op = "&" -> IF x = 1 /\ y = 1 THEN 1 ELSE 0
                      [] op = "|" -> IF x = 1 \/ y = 1 THEN 1 ELSE 0
                      [] OTHER    -> IF x # y THEN 1 ELSE 0
         IN  bit * k + BitOp(op, a \div 2, b \div 2, k * 2)

Apply(op, a, b) ==
    Lift2(a, b,
      CASE op = "+" -> Norm(a[1] * b[2] + b[1] * a[2], a[2] * b[2])
        [] op = "-" -> Norm(a[1] * b[2] - b[1] * a[2], a[2] * b[2])
        [] op = "*" -> Norm(a[1] * b[1], a[2] * b[2])
        [] op = "/" -> IF b[1] = 0 THEN Err ELSE Norm(a[1] * b[2], a[2] * b[1])
        [] op = "%" -> IF b[1] = 0 THEN Err
                       ELSE IF a[1] < 0 \/ b[1] < 0 THEN Unspec
                       ELSE \* a - b * floor(a / b) on non-negative rationals
                            LET q == (a[1] * b[2]) \div (a[2] * b[1]) IN
                            Norm(a[1] * b[2] - q * b[1] * a[2], a[2] * b[2])
        [] op = "<<" -> IF ~IsInt(a) \/ ~IsInt(b) \/ b[1] < 0 THEN Unspec
                        ELSE IF b[1] > 20 THEN Big ELSE Norm(a[1] * Pow2(b[1]), 1)
        [] op = ">>" -> IF ~IsInt(a) \/ ~IsInt(b) \/ b[1] < 0 \/ a[1] < 0 THEN Unspec
                        ELSE IF b[1] > 30 THEN <<0, 1>> ELSE Norm(a[1] \div Pow2(b[1]), 1)
        [] op \in {"&", "|", "^"} -> IF ~IsInt(a) \/ ~IsInt(b) \/ a[1] < 0 \/ b[1] < 0 THEN Unspec
                                     ELSE Norm(BitOp(op, a[1], b[1], 1), 1)
        [] OTHER -> Err)

Neg(a) == Lift1(a, <<-a[1], a[2]>>)
\* byte n of the (infinite) two's-complement representation of an integer
ByteN(a, n) == Lift1(a, IF ~IsInt(a) THEN Unspec
                        ELSE LET p == 256 ^ n
                                 fl == IF a[1] >= 0 THEN a[1] \div p ELSE -(((-a[1]) + p - 1) \div p)   \* floor(a / p)
                             IN  <<((fl % 256) + 256) % 256, 1>>)

Level(t) == CASE t \in {"&", "|", "^"} -> 0 [] t \in {"<<", ">>"} -> 1 [] t \in {"+", "-"} -> 2
              [] t \in {"*", "/", "%"} -> 3 [] OTHER -> 9
IsBinTok(t) == Level(t) < 9
Atom(t) == t \in {"n", "L"}
ByteFn(t) == t \in {"lsb", "byte0", "byte1", "byte2"}
ByteIdx(t) == CASE t = "byte1" -> 1 [] t = "byte2" -> 2 [] OTHER -> 0
Tok(q, i) == IF i <= Len(q) THEN q[i].t ELSE "end"

---------------------------------------------------------------------------
(* (i) descent machine *)
RECURSIVE P4(_, _), PE(_, _, _), PLoop(_, _, _, _)
R(v, nx) == [v |-> v, nx |-> nx]
P4(q, i) ==
    LET t == Tok(q, i) IN
    CASE Atom(t) -> R(<<q[i].v, 1>>, i + 1)
      [] t = "-" -> LET r == P4(q, i + 1) IN R(Neg(r.v), r.nx)       \* the operand is a FACTOR
      [] ByteFn(t) -> LET r == PE(q, i + 1, 0) IN
                      IF r.v # Err /\ Tok(q, r.nx) = ")" THEN R(ByteN(r.v, ByteIdx(t)), r.nx + 1) ELSE R(Err, r.nx)
      [] t = "(" -> LET r == PE(q, i + 1, 0) IN
                    IF r.v # Err /\ Tok(q, r.nx) = ")" THEN R(r.v, r.nx + 1) ELSE R(Err, r.nx)
      [] OTHER -> R(Err, i)
PE(q, i, lv) ==
    IF lv = 4 THEN P4(q, i)
    ELSE LET l == PE(q, i, lv + 1) IN IF l.v = Err THEN l ELSE PLoop(q, l.v, l.nx, lv)
PLoop(q, acc, i, lv) ==
    IF Level(Tok(q, i)) = lv
    THEN LET r == PE(q, i + 1, lv + 1) IN
         IF r.v = Err THEN r ELSE PLoop(q, Apply(Tok(q, i), acc, r.v), r.nx, lv)
    ELSE R(acc, i)

Junk(q) == \E i \in 1..Len(q) : q[i].t = "!"
Descent(q) == IF q = <<>> \/ Junk(q) THEN Err
              ELSE LET r == PE(q, 1, 0) IN IF r.v # Err /\ r.nx = Len(q) + 1 THEN r.v ELSE Err

---------------------------------------------------------------------------
(* (ii) split evaluator *)
Opens(t) == t = "(" \/ ByteFn(t)
RECURSIVE DepthBefore(_, _)
DepthBefore(q, i) ==      \* nesting depth of position i (number of unclosed openers before it); -1 if unbalanced
    IF i = 1 THEN 0
    ELSE LET d == DepthBefore(q, i - 1) IN
         IF d < 0 THEN -1
         ELSE IF Opens(q[i - 1].t) THEN d + 1
         ELSE IF q[i - 1].t = ")" THEN d - 1 ELSE d
\* token i is a binary operator occurrence: it follows something that ends an operand
BinAt(q, i) == i > 1 /\ IsBinTok(q[i].t) /\ (Atom(q[i - 1].t) \/ q[i - 1].t = ")")
TopBins(q) == {i \in 1..Len(q) : BinAt(q, i) /\ DepthBefore(q, i) = 0}
\* the closing parenthesis at the end matches the opener at position 1
Wraps(q) == /\ Len(q) >= 2 /\ Opens(q[1].t) /\ q[Len(q)].t = ")"
            /\ \A i \in 2..Len(q) : DepthBefore(q, i) >= 1
            /\ DepthBefore(q, Len(q)) = 1

RECURSIVE Split(_)
Split(q) ==
    IF q = <<>> THEN Err
    ELSE LET tb == TopBins(q) IN
    IF tb # {} THEN
        LET lv == CHOOSE l \in {Level(q[i].t) : i \in tb} : \A i \in tb : l <= Level(q[i].t)
            k  == CHOOSE i \in tb : Level(q[i].t) = lv /\ \A j \in tb : Level(q[j].t) = lv => j <= i
        IN  Apply(q[k].t, Split(SubSeq(q, 1, k - 1)), Split(SubSeq(q, k + 1, Len(q))))
    ELSE IF q[1].t = "-" THEN Neg(Split(Tail(q)))
    ELSE IF Wraps(q) THEN
        LET inner == Split(SubSeq(q, 2, Len(q) - 1)) IN
        IF ByteFn(q[1].t) THEN ByteN(inner, ByteIdx(q[1].t)) ELSE inner
    ELSE IF Len(q) = 1 /\ Atom(q[1].t) THEN <<q[1].v, 1>>
    ELSE Err

SplitValue(q) == IF Junk(q) THEN Err ELSE Split(q)

---------------------------------------------------------------------------
Trunc(x) == IF Special(x) THEN x
            ELSE IF x[1] >= 0 THEN <<x[1] \div x[2]>> ELSE <<-((-x[1]) \div x[2])>>

\* the two formulations agree, on value and on acceptance (Err dominates in both)
Agree(q) == Descent(q) = SplitValue(q)

\* follow-set guidance: after something that ends an operand come binary operators or a closing parenthesis,
\* anywhere else an operand has to start
EndsOperand(q) == q # <<>> /\ (Atom(q[Len(q)].t) \/ q[Len(q)].t = ")")
Viable(q, t) ==
    IF EndsOperand(q) THEN IsBinTok(t.t) \/ (t.t = ")" /\ DepthBefore(q, Len(q) + 1) > 0)
    ELSE Atom(t.t) \/ t.t = "-" \/ Opens(t.t)
Complete(q) == EndsOperand(q) /\ DepthBefore(q, Len(q) + 1) = 0

Init == s = <<>>
Next == Len(s) < MaxLen /\ \E t \in Tokens : (Guided => Viable(s, t)) /\ s' = Append(s, t)
Spec == Init /\ [][Next]_s

DescentEqualsSplit == Agree(s)

\* left associativity and unary binding, stated directly on three-operand strings
LeftAssoc ==
    (Len(s) = 5 /\ Atom(s[1].t) /\ Atom(s[3].t) /\ Atom(s[5].t) /\ IsBinTok(s[2].t) /\ IsBinTok(s[4].t)
        /\ Level(s[2].t) = Level(s[4].t))
    => Descent(s) = Apply(s[4].t, Apply(s[2].t, <<s[1].v, 1>>, <<s[3].v, 1>>), <<s[5].v, 1>>)
UnaryBindsTightest ==
    (Len(s) = 4 /\ s[1].t = "-" /\ Atom(s[2].t) /\ IsBinTok(s[3].t) /\ Atom(s[4].t))
    => Descent(s) = Apply(s[3].t, Neg(<<s[2].v, 1>>), <<s[4].v, 1>>)

TokJ(q) == [i \in 1..Len(q) |-> <<q[i].t, q[i].v>>]
ResJ(x) == IF x = Err THEN "E" ELSE IF x = Unspec THEN "U" ELSE IF x = Big THEN "B" ELSE ToString(Trunc(x)[1])
Emit == (s # <<>> /\ (Guided => Complete(s))) => PrintT(<<"EMIT", ToJson([k |-> TokJ(s), r |-> ResJ(Descent(s))])>>)
=============================================================================
