-------------------------------- MODULE Ext --------------------------------
(***************************************************************************)
(* C20: generated editor extensions mirror the ISA vocabulary.             *)
(*                                                                         *)
(* A vocabulary is [M, Q, R, P]: instruction mnemonics, macro names,       *)
(* registers, predefined names (constants, data blocks, zones).  Class(w)  *)
(* is what the generated syntax patterns must say about a probe word:      *)
(*   instruction / macro / register - case-insensitively, whole words      *)
(*   directive  - ".name" for a compiler or data directive keyword         *)
(*   preproc    - "#name" for a preprocessor keyword                       *)
(*   none       - everything else (predefined names are "none" here: the   *)
(*                property only forbids classifying them as one of the     *)
(*                four classes)                                            *)
(* The probe universe contains names that are prefixes / extensions of one *)
(* another, differ only in case, contain "." "_" and digits.               *)
(***************************************************************************)
EXTENDS Integers, Sequences, FiniteSets, TLC, Json

CONSTANTS MnPool, MacroPool, RegPool, PrePool, Probes

VARIABLE voc

LowerOf(w) == CASE w = "LD" -> "ld" [] w = "Ld.B" -> "ld.b" [] w = "Mov" -> "mov" [] w = "MOV" -> "mov" [] w = "A" -> "a"
                [] w = "SP" -> "sp" [] w = "Push2" -> "push2" [] w = "LDM" -> "ldm" [] w = "AH" -> "ah" [] w = "B1" -> "b1" [] OTHER -> w
CompilerDirectives == {"org", "memzone", "align"}
DataDirectives == {"fill", "zero", "zerountil", "byte", "2byte", "4byte", "8byte", "cstr", "asciiz"}
PreprocessorDirectives == {"include", "require", "create_memzone", "define", "if", "elif", "else", "endif", "ifdef", "ifndef", "mute", "unmute", "emit"}
\* probe p is [w, lead]: the word and the character written directly in front of it ("" "." "#")
Class(p, v) ==
    IF p.lead = "." THEN (IF p.w \in CompilerDirectives \cup DataDirectives THEN "directive" ELSE "none")
    ELSE IF p.lead = "#" THEN (IF p.w \in PreprocessorDirectives THEN "preproc" ELSE "none")
    ELSE IF LowerOf(p.w) \in {LowerOf(m) : m \in v.M} THEN "instruction"
    ELSE IF LowerOf(p.w) \in {LowerOf(m) : m \in v.Q} THEN "macro"
    ELSE IF LowerOf(p.w) \in {LowerOf(m) : m \in v.R} THEN "register"
    ELSE "none"

WellFormedVoc(v) == /\ v.M # {}
                    /\ {LowerOf(m) : m \in v.M} \cap {LowerOf(m) : m \in v.Q} = {}
                    /\ {LowerOf(m) : m \in v.M \cup v.Q} \cap {LowerOf(m) : m \in v.R} = {}

Init == voc \in {v \in [M : SUBSET MnPool, Q : SUBSET MacroPool, R : SUBSET RegPool, P : SUBSET PrePool] : WellFormedVoc(v)}
Spec == Init /\ [][FALSE]_voc

\* every vocabulary word is classified as what it is, and the classes are mutually exclusive by construction of Class
VocabularyClassified ==
    /\ \A m \in voc.M : Class([w |-> m, lead |-> ""], voc) = "instruction"
    /\ \A m \in voc.Q : Class([w |-> m, lead |-> ""], voc) = "macro"
    /\ \A m \in voc.R : Class([w |-> m, lead |-> ""], voc) = "register"
    /\ \A d \in CompilerDirectives \cup DataDirectives : Class([w |-> d, lead |-> "."], voc) = "directive"
                                                          /\ Class([w |-> d, lead |-> ""], voc) \in {"none", "instruction", "macro", "register"}

SetJ(S) == LET RECURSIVE go(_) go(T) == IF T = {} THEN <<>> ELSE LET x == CHOOSE y \in T : TRUE IN <<x>> \o go(T \ {x}) IN go(S)
ProbeSeq == SetJ(Probes)
Emit == PrintT(<<"EMIT", ToJson([M |-> SetJ(voc.M), Q |-> SetJ(voc.Q), R |-> SetJ(voc.R), P |-> SetJ(voc.P),
                                  probes |-> [i \in 1..Len(ProbeSeq) |-> <<ProbeSeq[i].lead, ProbeSeq[i].w, Class(ProbeSeq[i], voc)>>]])>>)
=============================================================================
