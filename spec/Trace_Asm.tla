----------------------------- MODULE Trace_Asm -----------------------------
(***************************************************************************)
(* Trace specification of the pipeline (code -> specification).            *)
(*                                                                         *)
(* The hooks in /repo (bespokeasm/_verif_trace.py, guarded by              *)
(* MICHAELKAMPRATH_BESPOKEASM_VERIF) log one event per step of pass 1 and  *)
(* pass 2; the harness adds the zone table, the configuration and the      *)
(* image it read back from the .bin file.  Each event must be the          *)
(* corresponding step function of AsmCore.tla applied to the specification *)
(* state, with every logged field equal to the specification's value:      *)
(*   p1   address = cursor of the line's zone | origin | AlignUp(cursor),   *)
(*        size (fill count, zerountil span recomputed from the target),    *)
(*        zone cursor after the line, zone and GLOBAL bounds, label value  *)
(*        = address                                                        *)
(*   p2   events arrive in the order of the STABLE sort by address of the  *)
(*        pass-1 objects (+ predefined data); bytes emitted = size         *)
(*        reserved; adjacent overlap check                                 *)
(*   img  the image read back equals the window onto the unmuted bytes,    *)
(*        fill elsewhere, with the right length                            *)
(* The file holds several traces that share one configuration; tid picks   *)
(* one; an accepted trace prints <<"ACC", tid>>.                            *)
(***************************************************************************)
EXTENDS Integers, Sequences, FiniteSets, TLC, Json, IOUtils, SequencesExt

Tr == JsonDeserialize(IOEnv.TRACE_FILE)
Cfg == Tr.cfg

Core == INSTANCE AsmCore WITH AddrBits <- Cfg.addr_bits, Origin <- Cfg.origin, PageSize <- Cfg.page_size,
                              PreZones <- <<>>, PreData <- Cfg.predata, InitDefs <- <<>>,
                              WinStart <- Cfg.win_start, WinEnd <- Cfg.win_end, Fill <- Cfg.fill

VARIABLES tid, ph, k, p, sorted, q
vars == <<tid, ph, k, p, sorted, q>>

T == Tr.traces[tid]
\* zone table of the run (zones created while reading exist when pass 1 starts)
Ztab == [z \in Core!ZoneNames |->
            LET hit == SelectSeq(T.zones, LAMBDA r : r.n = z) IN
            IF hit = <<>> THEN Core!NoZone ELSE [d |-> TRUE, s |-> hit[1].s, e |-> hit[1].e]]

LoOf(e) == [i |-> e.i, k |-> e.k, n |-> e.n, a |-> e.a, b |-> e.b, comp |-> TRUE, muted |-> e.muted,
            zone |-> e.zone, file |-> 0, region |-> 0]

Init == /\ tid \in 1..Len(Tr.traces)
        /\ ph = "p1" /\ k = 1
        /\ p = [cur |-> Core!InitCur(Ztab), objs |-> <<>>, labs |-> <<>>, status |-> "ok", why |-> ""]
        /\ sorted = <<>>
        /\ q = [outs |-> <<>>, last |-> 0]

P1Event ==
    /\ ph = "p1" /\ k <= Len(T.p1)
    /\ LET e == T.p1[k]
           np == Core!P1Step(p, LoOf(e), Ztab)
       IN  /\ np.status = "ok"
           /\ Len(np.objs) = Len(p.objs) + 1
           /\ Last(np.objs).addr = e.addr               \* address assignment
           /\ Last(np.objs).size = e.size               \* reserved size
           /\ np.cur[e.zone] = e.cur                    \* zone cursor after the line
           /\ (e.k = "tlab" => e.lv = e.addr)           \* an address label is bound to the line's address
           /\ p' = np
    /\ k' = k + 1 /\ UNCHANGED <<tid, ph, sorted, q>>

P1Done ==
    /\ ph = "p1" /\ k = Len(T.p1) + 1
    /\ ph' = "p2" /\ k' = 1
    /\ sorted' = Core!SortByAddrLib(p.objs \o Core!PreDataObjs)
    /\ UNCHANGED <<tid, p, q>>

IsByteObj(o) == o.k \in Core!ByteKinds
P2Event ==
    /\ ph = "p2" /\ k <= Len(T.p2) /\ k <= Len(sorted)
    /\ LET e == T.p2[k]
           o == sorted[k]
       IN  /\ e.i = o.i /\ e.addr = o.addr /\ e.size = o.size      \* stable sort by address
           /\ e.has_bytes = IsByteObj(o)
           /\ (e.has_bytes => Len(e.bytes) = o.size)                \* bytes emitted = space reserved
           \* the run was accepted, so the adjacent overlap check must have passed
           /\ ~(IsByteObj(o) /\ o.size > 0 /\ q.last # 0 /\ q.outs[q.last].addr + q.outs[q.last].size > o.addr)
           /\ q' = [outs |-> Append(q.outs, [addr |-> o.addr, size |-> o.size, muted |-> o.muted, isb |-> IsByteObj(o), bytes |-> e.bytes]),
                    last |-> IF IsByteObj(o) /\ o.size > 0 THEN Len(q.outs) + 1 ELSE q.last]
    /\ k' = k + 1 /\ UNCHANGED <<tid, ph, p, sorted>>

P2Done ==
    /\ ph = "p2" /\ k = Len(T.p2) + 1 /\ k = Len(sorted) + 1
    /\ ph' = "img" /\ UNCHANGED <<tid, k, p, sorted, q>>

Emits(o) == o.isb /\ ~o.muted /\ o.size > 0
MaxI(a, b) == IF a >= b THEN a ELSE b
MinI(a, b) == IF a <= b THEN a ELSE b
ImageOk ==
    LET img == T.image
        ws == Cfg.win_start
        em == SelectSeq(q.outs, Emits)
        top == IF em = <<>> THEN ws - 1 ELSE FoldLeft(LAMBDA m, o : MaxI(m, o.addr + o.size - 1), -1, em)
        last == IF Cfg.win_end # -1 THEN Cfg.win_end ELSE top
        At(a) == img[a - ws + 1]
        \* walk the emitting lines in address order: gap before the line is fill, the line's bytes are in place
        StepOk(acc, o) ==
            LET gapOk == \A a \in acc.at..MinI(o.addr - 1, last) : At(a) = Cfg.fill
                datOk == \A a \in MaxI(o.addr, ws)..MinI(o.addr + o.size - 1, last) : At(a) = o.bytes[a - o.addr + 1]
            IN  [ok |-> acc.ok /\ gapOk /\ datOk, at |-> MaxI(acc.at, o.addr + o.size)]
        fin == FoldLeft(StepOk, [ok |-> TRUE, at |-> ws], em)
    IN  /\ Len(img) = MaxI(last - ws + 1, 0)
        /\ fin.ok
        /\ \A a \in fin.at..last : At(a) = Cfg.fill

ImgEvent ==
    /\ ph = "img" /\ T.status = "ok"
    /\ ImageOk
    /\ ph' = "done" /\ UNCHANGED <<tid, k, p, sorted, q>>

Next == P1Event \/ P1Done \/ P2Event \/ P2Done \/ ImgEvent
TraceSpec == Init /\ [][Next]_vars

Accepted == ph = "done" => PrintT(<<"ACC", ToJson([t |-> tid])>>)
\* where a rejected trace got stuck (diagnosis)
Progress == PrintT(<<"AT", ToJson([t |-> tid, ph |-> ph, k |-> k])>>)
=============================================================================
