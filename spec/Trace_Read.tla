----------------------------- MODULE Trace_Read -----------------------------
(***************************************************************************)
(* Trace specification of the READ phase (code -> specification).          *)
(*                                                                         *)
(* The hooks log one `line` event per line object after its flags are set, *)
(* `incb` at include entry and `eof` at the end of each file.  The harness *)
(* abstracts each event into a line of the AsmCore alphabet (directive     *)
(* kind from the class and text; symbol, zone and label names mapped to    *)
(* the specification's name universe; for #if / #elif the recorded truth   *)
(* of the condition) and every event must be AsmCore!ReadStep applied to   *)
(* the reader state, with the logged observations equal to the             *)
(* specification's:                                                        *)
(*   comp     the line is compiled  <=>  every enclosing block selected    *)
(*            the branch containing it (condition stack, decided when the  *)
(*            directive was reached)                                       *)
(*   muted    mute counter > 0 (shared across includes)                    *)
(*   zone     the currently selected memory zone                           *)
(*   scope    lines have the same label scope object in the implementation *)
(*            <=> the same (file, local region) in the specification       *)
(*   branch   selected / enclosing-active flags of the innermost open      *)
(*            conditional chain                                            *)
(***************************************************************************)
EXTENDS Integers, Sequences, FiniteSets, TLC, Json, IOUtils, SequencesExt

Tr == JsonDeserialize(IOEnv.TRACE_FILE)
Cfg == Tr.cfg
Core == INSTANCE AsmCore WITH AddrBits <- Cfg.addr_bits, Origin <- 0, PageSize <- 1, PreZones <- Cfg.prezones, PreData <- <<>>,
                              InitDefs <- Cfg.initdefs, WinStart <- 0, WinEnd <- -1, Fill <- 0

VARIABLES tid, k, r, smap
vars == <<tid, k, r, smap>>
T == Tr.traces[tid]

Init == tid \in 1..Len(Tr.traces) /\ k = 1 /\ r = Core!InitReader /\ smap = <<>>

\* scope correspondence: smap is a sequence of <<implementation scope id, <<file, region>>>>
Consistent(m, id, fr) == /\ \A i \in 1..Len(m) : m[i][1] = id => m[i][2] = fr
                         /\ \A i \in 1..Len(m) : m[i][2] = fr => m[i][1] = id
Extend(m, id, fr) == IF \E i \in 1..Len(m) : m[i][1] = id THEN m ELSE Append(m, <<id, fr>>)

\* (the "chain taken" flag is bookkeeping: it only matters through the selection of later branches, which is compared)
BranchOf(stk) == IF stk = <<>> THEN <<>> ELSE <<Last(stk).sel, Last(stk).par>>

Step ==
    /\ k <= Len(T.events)
    /\ LET e == T.events[k]
           nr == Core!ReadStep(r, Core!L(e.k, e.n, e.a, e.b))
       IN  /\ nr.status = "run"
           /\ IF e.ev = "line"
              THEN /\ Len(nr.lines) = Len(r.lines) + 1
                   /\ Last(nr.lines).comp = e.comp                       \* selected by every enclosing block
                   /\ Last(nr.lines).muted = e.muted                     \* mute counter
                   /\ nr.zone = e.zone                                   \* currently selected zone
                   /\ Len(nr.cstk) = e.depth                             \* nesting depth of this file's conditionals
                   /\ (e.depth > 0 => BranchOf(nr.cstk) = <<e.branch[1], e.branch[3]>>)      \* decided once, when reached
                   /\ Consistent(smap, e.scope, <<nr.file, nr.region>>)  \* same scope object <=> same (file, region)
                   /\ smap' = Extend(smap, e.scope, <<nr.file, nr.region>>)
              ELSE /\ Len(nr.lines) = Len(r.lines) /\ UNCHANGED smap     \* include brackets create no line object
           /\ r' = nr
    /\ k' = k + 1 /\ UNCHANGED tid

TraceSpec == Init /\ [][Step]_vars
Accepted == (k = Len(T.events) + 1) => PrintT(<<"ACC", ToJson([t |-> tid])>>)
Progress == PrintT(<<"AT", ToJson([t |-> tid, k |-> k])>>)
=============================================================================
