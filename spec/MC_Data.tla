------------------------------- MODULE MC_Data -------------------------------
EXTENDS Data
Num(w, en, vals) == [kind |-> "num", w |-> w, en |-> en, vals |-> vals, form |-> "", chars |-> <<>>, term |-> 0, n |-> 0, v |-> 0, cur |-> 0]
Str(form, chars, term) == [kind |-> "str", w |-> 1, en |-> "big", vals |-> <<>>, form |-> form, chars |-> chars, term |-> term, n |-> 0, v |-> 0, cur |-> 0]
Fil(form, n, v, cur) == [kind |-> "fill", w |-> 1, en |-> "big", vals |-> <<>>, form |-> form, chars |-> <<>>, term |-> 0, n |-> n, v |-> v, cur |-> cur]

Rep(b, k) == [i \in 1..k |-> b]
\* magnitudes at the boundaries of a width of w bytes
Mags(w) == { <<>>, <<1>>, <<255>>, <<0, 1>>, <<52, 18>>, Rep(255, w), Rep(0, w) \o <<1>>, Rep(0, w - 1) \o <<128>>,
             Rep(255, w - 1) \o <<127>>, <<1>> \o Rep(0, w - 1) \o <<1>>, Rep(0, w) \o <<0, 1>>, <<239, 205, 171, 137, 103, 69, 35, 1>> }
Vals(w) == { V(s, m) : s \in BOOLEAN, m \in Mags(w) }
ScNum1 == { Num(w, en, <<x>>) : w \in {1, 2, 4, 8}, en \in {"big", "little"}, x \in UNION {Vals(u) : u \in {1, 2, 4, 8}} }
ScNum2 == { Num(w, en, <<x, y>>) : w \in {1, 2, 4}, en \in {"big", "little"}, x \in Vals(2), y \in {V(FALSE, <<7>>), V(TRUE, <<1>>), V(FALSE, <<0, 0, 1>>)} }
ScNum3 == { Num(w, "little", <<V(FALSE, <<1>>), V(FALSE, <<2, 1>>), V(TRUE, <<3>>)>>) : w \in {1, 2, 4, 8} }

\* lists whose values are character codes: the harness writes them as quoted characters ('H', 'i') - a list of quoted characters is a
\* list of values, not one string, whatever it begins and ends with
ScNumChars == { Num(w, en, vals) : w \in {1, 2}, en \in {"big", "little"},
                vals \in { <<V(FALSE, <<72>>), V(FALSE, <<105>>)>>, <<V(FALSE, <<111>>), V(FALSE, <<107>>), V(FALSE, <<33>>)>>,
                           <<V(FALSE, <<97>>), V(FALSE, <<10>>), V(FALSE, <<122>>)>>, <<V(FALSE, <<59>>), V(FALSE, <<44>>)>>, <<V(FALSE, <<72>>)>> } }

\* character codes: a space newline tab backslash dquote A(hex escape) semicolon squote NUL comma hash
\* 321 = U+0141, written \u0141: a character beyond 8 bits still emits ONE byte (its low byte)
\* 200 is written \xc8: a hex escape above 0x7f is still one byte
\* 120 58 = "x:" - the spelling of a label definition inside a string (the harness then puts a label x in front of the directive)
Chars == {97, 32, 10, 9, 92, 34, 65, 59, 39, 0, 44, 35, 321, 200, 120, 58}
Strs(k) == UNION { [1..j -> Chars] : j \in 0..k }
ScStr(k) == { Str(f, c, t) : f \in {"byte", "cstr", "asciiz", "embedded", "bytesq"}, c \in Strs(k), t \in {0, 3, 255} }
ScFill == { Fil("fill", n, v, 0) : n \in 0..3, v \in {0, 1, 255, 256, 263, -1, -256} }
          \cup { Fil("zero", n, 0, 0) : n \in 0..3 }
          \* counts around powers of two and page sizes: nothing of a long run may be lost
          \cup { Fil("fill", n, v, 0) : n \in {15, 16, 17, 255, 256, 257, 300, 511, 512, 700, 1000, 1025}, v \in {1, 255} }
          \cup { Fil("zero", n, 0, 0) : n \in {16, 17, 256, 257, 300, 700, 1025} }
          \cup { Fil("zuntil", a, 0, c) : a \in {255, 256, 257, 299, 1023, 1024}, c \in {0, 4} }
          \cup { Fil("zuntil", a, 0, c) : a \in 0..9, c \in {0, 4, 7} }
ScQuick == ScNumChars \cup ScNum1 \cup ScNum2 \cup ScNum3 \cup ScStr(2) \cup ScFill
ScThorough == ScNumChars \cup ScNum1 \cup ScNum2 \cup ScNum3 \cup ScStr(3) \cup ScFill
=============================================================================
