#!/venv/bin/python
"""Driver: ./check <property> [--tier quick|thorough] [--replay <dir>] [--selftest]

exit 0  the property held on everything explored
exit 1  at least one violation not listed in known_findings.json (VIOLATION property=<id> replay=<path>)
exit 2  machinery failure (TLC refuted the specification's own property, tooling error) - never a VIOLATION
"""
from __future__ import annotations

import argparse
import importlib
import json
import os
import sys
import traceback

VERIF = os.path.dirname(os.path.abspath(__file__))
sys.path.insert(0, VERIF)
os.environ.setdefault('PYTHONHASHSEED', '0')

from harness import core, runner, tlc  # noqa: E402


def main():
    ap = argparse.ArgumentParser()
    ap.add_argument('prop')
    ap.add_argument('--tier', default=os.environ.get('VERIF_TIER', 'quick'), choices=['quick', 'thorough'])
    ap.add_argument('--replay')
    args = ap.parse_args()
    prop = args.prop.upper()
    try:
        mod = importlib.import_module(f'checks.{prop.lower()}')
    except ModuleNotFoundError:
        print(f'no check for {prop}', file=sys.stderr)
        return 2
    if args.replay:
        return mod.replay(args.replay) if hasattr(mod, 'replay') else generic_replay(prop, args.replay)
    core.clean_replays(prop)
    chk = core.Check(prop, args.tier, getattr(mod, 'LEVEL', 'model_checking'))
    try:
        mod.run(chk)
    except tlc.TLCError as e:
        chk.machinery(f'TLC: {str(e)[-1500:]}')
    except Exception as e:  # machinery failure, never a verdict
        chk.machinery(f'{type(e).__name__}: {e}\n{traceback.format_exc()[-1500:]}')
    finally:
        runner.close_pool()
    return chk.finish()


def generic_replay(prop, path):
    """Re-run the stored case against the current tree and print what is observed now."""
    with open(os.path.join(path, 'violation.json')) as f:
        v = json.load(f)
    case = v.get('case')
    print('description:', v['desc'])
    if isinstance(case, dict) and 'files' in case and 'config' in case:
        obs = runner.run_case(case)
        img = obs['image'].hex() if obs.get('image') is not None else None
        print('observed now: status', obs['status'], 'msg', (obs.get('msg') or '')[:200], 'image', img)
        exp = v.get('expected') or {}
        print('specification expects: status', exp.get('status'), 'image',
              bytes(exp['image']).hex() if isinstance(exp.get('image'), list) else exp.get('image'))
        same = (obs['status'] == 'ok') == (exp.get('status') == 'ok') and \
            (exp.get('status') != 'ok' or not isinstance(exp.get('image'), list) or bytes(exp['image']) == obs['image'])
        if not same:
            print(f'VIOLATION property={prop} replay={path}')
            return 1
        print('the case now agrees with the specification (on status and image)')
        return 0
    print('case is not a program case; see violation.json')
    return 0


if __name__ == '__main__':
    sys.exit(main())
