"""Recording pipeline traces from real runs (hooks in /repo, guard MICHAELKAMPRATH_BESPOKEASM_VERIF) and validating them
against spec/Trace_Asm.tla with TLC."""
from __future__ import annotations

import json
import os
import random
import shutil
import tempfile

from harness import runner, tlc

CANON = ['z%d' % i for i in range(1, 13)]
KIND = {'AddressOrgLine': 'org', 'SetMemoryZoneLine': 'zone', 'PageAlignLine': 'align', 'FillDataLine': 'fill',
        'FillUntilDataLine': 'zuntil', 'LabelLine': 'tlab'}
BYTE_CLASSES = {'DataLine', 'InstructionLine', 'EmbeddedString', 'PredefinedDataLine'}


def record(run_fn, out_bin):
    """run_fn(): performs one assembly in-process (already prepared). Returns (status, msg, events, image)."""
    runner.import_repo()
    from bespokeasm import _verif_trace
    fd, path = tempfile.mkstemp(prefix='vtr_', suffix='.ndjson', dir=runner.SCRATCH_ROOT)
    os.close(fd)
    try:
        _verif_trace.configure(True, path)
        status, msg, _ = runner.guarded(run_fn, 120.0)
        _verif_trace.configure(False, None)
        events = [json.loads(l) for l in open(path) if l.strip()]
    finally:
        try:
            from bespokeasm import _verif_trace as vt
            vt.configure(False, None)
        except Exception:
            pass
        os.unlink(path)
    image = list(open(out_bin, 'rb').read()) if os.path.exists(out_bin) else None
    return status, (msg if isinstance(msg, str) else None), events, image


def to_trace(status, events, image):
    """ndjson events -> (cfg key dict, trace dict) in the vocabulary of Trace_Asm.tla; None if not representable."""
    start = next((e for e in events if e['ev'] == 'start'), None)
    zones_ev = next((e for e in events if e['ev'] == 'zones'), None)
    if start is None or zones_ev is None:
        return None
    zmap = {}
    for n, s, e in zones_ev['zones']:
        if n == 'GLOBAL':
            zmap[n] = 'GLOBAL'
        else:
            if len(zmap) - (1 if 'GLOBAL' in zmap else 0) >= len(CANON):
                return None
            zmap[n] = CANON[len([k for k in zmap if k != 'GLOBAL'])]
    zstart = {n: s for n, s, e in zones_ev['zones']}
    cfg = {'addr_bits': start['addr_bits'], 'origin': start['origin'], 'page_size': start['page_size'],
           'win_start': start['win_start'], 'win_end': -1 if start['win_end'] is None else start['win_end'], 'fill': start['fill'],
           'predata': [{'n': '', 'a': a, 'v': 0, 'sz': sz} for a, sz in start['predata']]}
    p1, p2 = [], []
    for e in events:
        if e['ev'] == 'p1':
            cls = e['cls']
            k = KIND.get(cls, 'raw' if cls in BYTE_CLASSES else 'other')
            n, a, b = '', 0, 0
            if k == 'org':
                if e['org_zone'] is not None:
                    k, n, a = 'orgz', zmap[e['org_zone']], e['addr'] - zstart[e['org_zone']]
                else:
                    a = e['addr']
            elif k == 'zone':
                n = zmap[e['zone']]
            elif k == 'align':
                a = e['page'] if isinstance(e['page'], int) else 1
            elif k == 'fill':
                a = e['count']
            elif k == 'zuntil':
                a = e['until']
            elif k == 'raw':
                b = e['size']
            elif k == 'tlab' and e['is_constant']:
                k = 'other'
            p1.append({'i': e['i'], 'k': k, 'n': n, 'a': a, 'b': b, 'muted': bool(e['muted']), 'zone': zmap[e['zone']],
                       'addr': e['addr'], 'size': e['size'], 'cur': e['cur'], 'lv': e['label_value'] if e['label_value'] is not None else 0})
        elif e['ev'] == 'p2':
            p2.append({'i': e['i'], 'addr': e['addr'], 'size': e['size'], 'has_bytes': bool(e['has_bytes']), 'bytes': e['bytes']})
    tr = {'zones': [{'n': zmap[n], 's': s, 'e': e} for n, s, e in zones_ev['zones']], 'p1': p1, 'p2': p2,
          'image': image if image is not None else [], 'status': status}
    return cfg, tr


def _validate_part(args):
    cfg, part, diagnose = args
    fd, path = tempfile.mkstemp(prefix='vtrace_', suffix='.json', dir=runner.SCRATCH_ROOT)
    with os.fdopen(fd, 'w') as f:
        json.dump({'cfg': cfg, 'traces': [m[0] for m in part]}, f)
    try:
        res = tlc.run_tlc('Trace_Asm', 'SPECIFICATION TraceSpec\nINVARIANT Accepted\n', workers=1, env={'TRACE_FILE': path},
                          timeout=3000, heap='6g')
        runs = [res]
        acc = {a['t'] for a in res.tags.get('ACC', [])}
        where = {}
        if diagnose and len(acc) < len(part):
            res2 = tlc.run_tlc('Trace_Asm', 'SPECIFICATION TraceSpec\nINVARIANT Progress\n', workers=1, env={'TRACE_FILE': path},
                               timeout=3000, heap='6g')
            runs.append(res2)
            rank = {'p1': 0, 'p2': 1, 'img': 2, 'done': 3}
            for a in res2.tags.get('AT', []):
                cur = where.get(a['t'], ('p1', 0))
                if (rank[a['ph']], a['k']) >= (rank[cur[0]], cur[1]):
                    where[a['t']] = (a['ph'], a['k'])
        out = [(label, j in acc, where.get(j), tr) for j, (tr, label) in enumerate(part, start=1)]
        return out, runs
    finally:
        os.unlink(path)


def validate(chk, items, diagnose=True):
    """items: list of (cfg, trace, label). Groups by cfg, one TLC run per group (groups run concurrently).
    Returns list of (label, accepted, where, trace)."""
    from concurrent.futures import ThreadPoolExecutor
    groups = {}
    for cfg, tr, label in items:
        groups.setdefault(json.dumps(cfg, sort_keys=True), []).append((tr, label))
    jobs = []
    for key, members in groups.items():
        cfg = json.loads(key)
        for off in range(0, len(members), 400):
            jobs.append((cfg, members[off:off + 400], diagnose))
    results = []
    with ThreadPoolExecutor(max_workers=6) as ex:
        for out, runs in ex.map(_validate_part, jobs):
            results.extend(out)
            for r in runs:
                chk.add_tlc(r)
    return results


# ---------------------------------------------------------------- programs TLC did not invent

def random_program(rng: random.Random, n_lines: int):
    """A rich well-formed carrier program: forward-only origins, labels, references, data, fills, alignment, a zone, muting."""
    lines = []
    labels = []
    addr = 0
    zone_used = False
    nlab = 0
    muted = False
    local_ok = False
    for _ in range(n_lines):
        c = rng.random()
        if c < 0.12:
            nlab += 1
            name = rng.choice(['', '_', '.']) + f'lb{nlab}'
            if name.startswith('.') and not local_ok:
                name = f'lb{nlab}'
            if not name.startswith('.'):
                local_ok = True
            labels.append(name)
            lines.append(f'{name}:')
        elif c < 0.30:
            lines.append('nop')
            addr += 1
        elif c < 0.45:
            lines.append(f'ld8 {rng.randrange(256)}')
            addr += 2
        elif c < 0.60:
            globs = [l for l in labels if not l.startswith('.') and not l.startswith('_')]
            tgt = rng.choice(globs) if globs and rng.random() < 0.7 else str(rng.randrange(65536))
            lines.append(f'ld16 {tgt}')
            addr += 3
        elif c < 0.72:
            k = rng.randrange(1, 9)
            lines.append('.byte ' + ', '.join(str(rng.randrange(256)) for _ in range(k)))
            addr += k
        elif c < 0.78:
            k = rng.randrange(0, 5)
            lines.append(f'.fill {k}, {rng.randrange(256)}')
            addr += k
        elif c < 0.83:
            p = rng.choice([2, 4, 8, 16, 3, 10])
            lines.append(f'.align {p}')
            addr = addr if addr % p == 0 else addr + (p - addr % p)
        elif c < 0.88:
            addr += rng.randrange(1, 300)
            lines.append(f'.org {addr}')
            local_ok = False
        elif c < 0.92:
            t = addr + rng.randrange(-3, 12)
            lines.append(f'.zerountil {t}')
            if t >= addr:
                addr = t + 1
        elif c < 0.96:
            lines.append('#unmute' if muted else '#mute')
            muted = not muted
        else:
            k = rng.randrange(1, 5)
            lines.append(f'.cstr "{"x" * k}"')
            addr += k + 1
    if muted:
        lines.append('#unmute')
    return '\n'.join(lines) + '\n'


# ---------------------------------------------------------------- read-phase traces (spec/Trace_Read.tla)

def to_read_trace(events, init_symbols, fallback_zones=None):
    """line / incb / eof events -> (cfg, trace) for Trace_Read.tla; None if the name universes are exceeded."""
    import re
    runner.import_repo()
    from bespokeasm.utilities import parse_numeric_string
    start = next((e for e in events if e['ev'] == 'start'), None)
    zones_ev = next((e for e in events if e['ev'] == 'zones'), None)
    if start is None:
        return None
    syms, zmap, scopes = {}, {'GLOBAL': 'GLOBAL'}, {}

    def sym(n):
        if n not in syms:
            if len(syms) >= 8:
                raise OverflowError
            syms[n] = f'S{len(syms) + 1}'
        return syms[n]

    def zone(n):
        if n not in zmap:
            if len(zmap) > len(CANON):
                raise OverflowError
            zmap[n] = CANON[len(zmap) - 1]
        return zmap[n]

    created = set()
    out = []
    depth_files = 0
    try:
        initdefs = [[sym(n), 0] for n in init_symbols]
        for e in events:
            if e['ev'] == 'incb':
                out.append({'ev': 'incb', 'k': 'incb', 'n': '', 'a': 0, 'b': 0})
                depth_files += 1
                continue
            if e['ev'] == 'eof':
                if depth_files > 0:
                    out.append({'ev': 'ince', 'k': 'ince', 'n': '', 'a': 0, 'b': 0})
                    depth_files -= 1
                continue
            if e['ev'] != 'line':
                continue
            cls, text = e['cls'], e['text']
            k, n, a, b = 'i1', '', 0, 0
            if cls == 'ConditionLine':
                br = e['branch'] or [False, False, False]
                if text.startswith('#ifdef '):
                    k, n = 'ifdef', sym(text.split()[1])
                elif text.startswith('#ifndef '):
                    k, n = 'ifndef', sym(text.split()[1])
                elif text.startswith('#if '):
                    k, a = 'ifx', 1 if br[0] else 0
                elif text.startswith('#elif '):
                    k, a = 'elifx', 1 if br[0] else 0
                elif text == '#else':
                    k = 'else'
                elif text == '#endif':
                    k = 'endif'
                elif text == '#mute':
                    k = 'mute'
                else:
                    k = 'unmute'
            elif cls == 'DefineSymbolLine':
                k, n = 'define', sym(text.split()[1])
            elif cls == 'CreateMemzoneLine':
                parts = text.split()
                k, n, a, b = 'mkzone', zone(parts[1]), parse_numeric_string(parts[2]), parse_numeric_string(parts[3])
                created.add(parts[1])
            elif cls == 'LabelLine':
                if e['is_constant']:
                    k = 'i1'
                else:
                    lab = e['label']
                    k, n = 'lab', ('l1' if lab.startswith('.') else 'f1' if lab.startswith('_') else 'g1')
            elif cls == 'AddressOrgLine':
                m = re.search(r'"([\w_]+)"\s*$', text)
                if m:
                    k, n = 'orgz', zone(m.group(1))
                else:
                    k = 'org'
            elif cls == 'SetMemoryZoneLine':
                k, n = 'zone', zone(text.split()[1])
            sid = scopes.setdefault(e['scope_id'], len(scopes) + 1)
            out.append({'ev': 'line', 'k': k, 'n': n, 'a': a, 'b': b, 'comp': bool(e['comp']), 'muted': bool(e['muted']),
                        'zone': zone(e['zone']), 'depth': e['depth'], 'branch': [bool(x) for x in (e['branch'] or [])], 'scope': sid,
                        'src': f'{e["file"]}:{e["line"]} {text[:50]}'})
        prezones = []
        if zones_ev is not None:
            for zn, s, en in zones_ev['zones']:
                if zn not in created:
                    prezones.append({'n': zone(zn), 's': s, 'e': en})
        elif fallback_zones is not None:
            for zn, s, en in fallback_zones:
                prezones.append({'n': zone(zn), 's': s, 'e': en})
        else:
            return None
    except (OverflowError, IndexError, ValueError):
        return None
    cfg = {'addr_bits': start['addr_bits'], 'prezones': prezones, 'initdefs': initdefs}
    return cfg, {'events': out}


def validate_read(chk, items):
    """items: (cfg, trace, label) -> list of (label, accepted, k, trace)."""
    from concurrent.futures import ThreadPoolExecutor
    groups = {}
    for cfg, tr, label in items:
        groups.setdefault(json.dumps(cfg, sort_keys=True), []).append((tr, label))

    def one(args):
        cfg, part = args
        fd, path = tempfile.mkstemp(prefix='vrtrace_', suffix='.json', dir=runner.SCRATCH_ROOT)
        with os.fdopen(fd, 'w') as f:
            json.dump({'cfg': cfg, 'traces': [{'events': [{kk: vv for kk, vv in ev.items() if kk != 'src'} for ev in m[0]['events']]} for m in part]}, f)
        try:
            res = tlc.run_tlc('Trace_Read', 'SPECIFICATION TraceSpec\nINVARIANT Accepted\n', workers=1, env={'TRACE_FILE': path}, timeout=3000, heap='6g')
            runs = [res]
            acc = {a['t'] for a in res.tags.get('ACC', [])}
            where = {}
            if len(acc) < len(part):
                res2 = tlc.run_tlc('Trace_Read', 'SPECIFICATION TraceSpec\nINVARIANT Progress\n', workers=1, env={'TRACE_FILE': path}, timeout=3000, heap='6g')
                runs.append(res2)
                for a in res2.tags.get('AT', []):
                    where[a['t']] = max(where.get(a['t'], 0), a['k'])
            return [(label, j in acc, where.get(j, 0), tr) for j, (tr, label) in enumerate(part, start=1)], runs
        finally:
            os.unlink(path)

    jobs = []
    for key, members in groups.items():
        for off in range(0, len(members), 300):
            jobs.append((json.loads(key), members[off:off + 300]))
    results = []
    with ThreadPoolExecutor(max_workers=6) as ex:
        for out, runs in ex.map(one, jobs):
            results.extend(out)
            for rr in runs:
                chk.add_tlc(rr)
    return results


def random_files(rng: random.Random, n_lines: int):
    """A multi-file carrier program with nested conditionals, definitions, muting, zones, includes and all label classes."""
    files = {'main.asm': []}
    ninc = 0
    syms_defined = []

    def gen(fname, n, depth_inc):
        nonlocal ninc
        lines = files[fname]
        open_blocks = []      # each: has_else
        local_ok = False
        nlab = 0
        for _ in range(n):
            c = rng.random()
            if c < 0.10:
                nlab += 1
                pre = rng.choice(['', '_', '.'])
                if pre == '.' and not local_ok:
                    pre = ''
                name = f'{pre}{fname[0]}{len(lines)}x{nlab}'
                if pre != '.':
                    local_ok = True
                lines.append(f'{name}:')
            elif c < 0.30:
                lines.append(rng.choice(['nop', f'ld8 {rng.randrange(256)}', f'.byte {rng.randrange(256)}, {rng.randrange(256)}']))
            elif c < 0.40:
                s = f'SYM{rng.randrange(6)}'
                if s not in syms_defined:
                    syms_defined.append(s)
                    lines.append(f'#define {s} {rng.randrange(3)}')
                else:
                    lines.append('nop')
            elif c < 0.58 and len(open_blocks) < 3:
                s = f'SYM{rng.randrange(6)}'
                lines.append(rng.choice([f'#ifdef {s}', f'#ifndef {s}', f'#if {s} == {rng.randrange(3)}', f'#if {s}']))
                open_blocks.append(False)
            elif c < 0.66 and open_blocks and not open_blocks[-1]:
                if rng.random() < 0.5:
                    lines.append(f'#elif SYM{rng.randrange(6)} == {rng.randrange(3)}')
                else:
                    lines.append('#else')
                    open_blocks[-1] = True
            elif c < 0.78 and open_blocks:
                lines.append('#endif')
                open_blocks.pop()
            elif c < 0.83:
                lines.append(rng.choice(['#mute', '#unmute', '#emit']))
            elif c < 0.88:
                lines.append(rng.choice(['.memzone zone1', '.memzone GLOBAL', f'.org {rng.randrange(1, 30)} "zone1"']))
                local_ok = False
            elif c < 0.92 and depth_inc < 2 and ninc < 3:
                ninc += 1
                inc = f'inc{ninc}.asm'
                files[inc] = []
                lines.append(f'#include "{inc}"')
                gen(inc, rng.randrange(2, 12), depth_inc + 1)
            else:
                lines.append(f'.fill {rng.randrange(0, 3)}, 7')
        for _ in open_blocks:
            lines.append('#endif')

    gen('main.asm', n_lines, 0)
    return {f: '\n'.join(ls) + '\n' for f, ls in files.items()}
