"""Recording pipeline traces from real runs (hooks in /repo, guard MICHAELKAMPRATH_BESPOKEASM_VERIF) and validating them
against spec/Trace_Asm.tla with TLC."""
from __future__ import annotations

import json
import os
import random
import shutil
import tempfile

from harness import runner, tlc

CANON = ['z%d' % i for i in range(1, 13)]
KIND = {'AddressOrgLine': 'org', 'SetMemoryZoneLine': 'zone', 'PageAlignLine': 'align', 'FillDataLine': 'fill',
        'FillUntilDataLine': 'zuntil', 'LabelLine': 'tlab'}
BYTE_CLASSES = {'DataLine', 'InstructionLine', 'EmbeddedString', 'PredefinedDataLine'}


def record(run_fn, out_bin):
    """run_fn(): performs one assembly in-process (already prepared). Returns (status, msg, events, image)."""
    runner.import_repo()
    from bespokeasm import _verif_trace
    fd, path = tempfile.mkstemp(prefix='vtr_', suffix='.ndjson', dir=runner.SCRATCH_ROOT)
    os.close(fd)
    try:
        _verif_trace.configure(True, path)
        status, msg, _ = runner.guarded(run_fn, 120.0)
        _verif_trace.configure(False, None)
        events = [json.loads(l) for l in open(path) if l.strip()]
    finally:
        try:
            from bespokeasm import _verif_trace as vt
            vt.configure(False, None)
        except Exception:
            pass
        os.unlink(path)
    image = list(open(out_bin, 'rb').read()) if os.path.exists(out_bin) else None
    return status, (msg if isinstance(msg, str) else None), events, image


def to_trace(status, events, image):
    """ndjson events -> (cfg key dict, trace dict) in the vocabulary of Trace_Asm.tla; None if not representable."""
    start = next((e for e in events if e['ev'] == 'start'), None)
    zones_ev = next((e for e in events if e['ev'] == 'zones'), None)
    if start is None or zones_ev is None:
        return None
    zmap = {}
    for n, s, e in zones_ev['zones']:
        if n == 'GLOBAL':
            zmap[n] = 'GLOBAL'
        else:
            if len(zmap) - (1 if 'GLOBAL' in zmap else 0) >= len(CANON):
                return None
            zmap[n] = CANON[len([k for k in zmap if k != 'GLOBAL'])]
    zstart = {n: s for n, s, e in zones_ev['zones']}
    cfg = {'addr_bits': start['addr_bits'], 'origin': start['origin'], 'page_size': start['page_size'],
           'win_start': start['win_start'], 'win_end': -1 if start['win_end'] is None else start['win_end'], 'fill': start['fill'],
           'predata': [{'n': '', 'a': a, 'v': 0, 'sz': sz} for a, sz in start['predata']]}
    p1, p2 = [], []
    for e in events:
        if e['ev'] == 'p1':
            cls = e['cls']
            k = KIND.get(cls, 'raw' if cls in BYTE_CLASSES else 'other')
            n, a, b = '', 0, 0
            if k == 'org':
                if e['org_zone'] is not None:
                    k, n, a = 'orgz', zmap[e['org_zone']], e['addr'] - zstart[e['org_zone']]
                else:
                    a = e['addr']
            elif k == 'zone':
                n = zmap[e['zone']]
            elif k == 'align':
                a = e['page'] if isinstance(e['page'], int) else 1
            elif k == 'fill':
                a = e['count']
            elif k == 'zuntil':
                a = e['until']
            elif k == 'raw':
                b = e['size']
            elif k == 'tlab' and e['is_constant']:
                k = 'other'
            p1.append({'i': e['i'], 'k': k, 'n': n, 'a': a, 'b': b, 'muted': bool(e['muted']), 'zone': zmap[e['zone']],
                       'addr': e['addr'], 'size': e['size'], 'cur': e['cur'], 'lv': e['label_value'] if e['label_value'] is not None else 0})
        elif e['ev'] == 'p2':
            p2.append({'i': e['i'], 'addr': e['addr'], 'size': e['size'], 'has_bytes': bool(e['has_bytes']), 'bytes': e['bytes']})
    tr = {'zones': [{'n': zmap[n], 's': s, 'e': e} for n, s, e in zones_ev['zones']], 'p1': p1, 'p2': p2,
          'image': image if image is not None else [], 'status': status}
    return cfg, tr


def _validate_part(args):
    cfg, part, diagnose = args
    fd, path = tempfile.mkstemp(prefix='vtrace_', suffix='.json', dir=runner.SCRATCH_ROOT)
    with os.fdopen(fd, 'w') as f:
        json.dump({'cfg': cfg, 'traces': [m[0] for m in part]}, f)
    try:
        res = tlc.run_tlc('Trace_Asm', 'SPECIFICATION TraceSpec\nINVARIANT Accepted\n', workers=1, env={'TRACE_FILE': path},
                          timeout=3000, heap='6g')
        runs = [res]
        acc = {a['t'] for a in res.tags.get('ACC', [])}
        where = {}
        if diagnose and len(acc) < len(part):
            res2 = tlc.run_tlc('Trace_Asm', 'SPECIFICATION TraceSpec\nINVARIANT Progress\n', workers=1, env={'TRACE_FILE': path},
                               timeout=3000, heap='6g')
            runs.append(res2)
            rank = {'p1': 0, 'p2': 1, 'img': 2, 'done': 3}
            for a in res2.tags.get('AT', []):
                cur = where.get(a['t'], ('p1', 0))
                if (rank[a['ph']], a['k']) >= (rank[cur[0]], cur[1]):
                    where[a['t']] = (a['ph'], a['k'])
        out = [(label, j in acc, where.get(j), tr) for j, (tr, label) in enumerate(part, start=1)]
        return out, runs
    finally:
        os.unlink(path)


def validate(chk, items, diagnose=True):
    """items: list of (cfg, trace, label). Groups by cfg, one TLC run per group (groups run concurrently).
    Returns list of (label, accepted, where, trace)."""
    from concurrent.futures import ThreadPoolExecutor
    groups = {}
    for cfg, tr, label in items:
        groups.setdefault(json.dumps(cfg, sort_keys=True), []).append((tr, label))
    jobs = []
    for key, members in groups.items():
        cfg = json.loads(key)
        for off in range(0, len(members), 400):
            jobs.append((cfg, members[off:off + 400], diagnose))
    results = []
    with ThreadPoolExecutor(max_workers=6) as ex:
        for out, runs in ex.map(_validate_part, jobs):
            results.extend(out)
            for r in runs:
                chk.add_tlc(r)
    return results


# ---------------------------------------------------------------- programs TLC did not invent

def random_program(rng: random.Random, n_lines: int):
    """A rich well-formed carrier program: forward-only origins, labels, references, data, fills, alignment, a zone, muting."""
    lines = []
    labels = []
    addr = 0
    zone_used = False
    nlab = 0
    muted = False
    local_ok = False
    for _ in range(n_lines):
        c = rng.random()
        if c < 0.12:
            nlab += 1
            name = rng.choice(['', '_', '.']) + f'lb{nlab}'
            if name.startswith('.') and not local_ok:
                name = f'lb{nlab}'
            if not name.startswith('.'):
                local_ok = True
            labels.append(name)
            lines.append(f'{name}:')
        elif c < 0.30:
            lines.append('nop')
            addr += 1
        elif c < 0.45:
            lines.append(f'ld8 {rng.randrange(256)}')
            addr += 2
        elif c < 0.60:
            globs = [l for l in labels if not l.startswith('.') and not l.startswith('_')]
            tgt = rng.choice(globs) if globs and rng.random() < 0.7 else str(rng.randrange(65536))
            lines.append(f'ld16 {tgt}')
            addr += 3
        elif c < 0.72:
            k = rng.randrange(1, 9)
            lines.append('.byte ' + ', '.join(str(rng.randrange(256)) for _ in range(k)))
            addr += k
        elif c < 0.78:
            k = rng.randrange(0, 5)
            lines.append(f'.fill {k}, {rng.randrange(256)}')
            addr += k
        elif c < 0.83:
            p = rng.choice([2, 4, 8, 16, 3, 10])
            lines.append(f'.align {p}')
            addr = addr if addr % p == 0 else addr + (p - addr % p)
        elif c < 0.88:
            addr += rng.randrange(1, 300)
            lines.append(f'.org {addr}')
            local_ok = False
        elif c < 0.92:
            t = addr + rng.randrange(-3, 12)
            lines.append(f'.zerountil {t}')
            if t >= addr:
                addr = t + 1
        elif c < 0.96:
            lines.append('#unmute' if muted else '#mute')
            muted = not muted
        else:
            k = rng.randrange(1, 5)
            lines.append(f'.cstr "{"x" * k}"')
            addr += k + 1
    if muted:
        lines.append('#unmute')
    return '\n'.join(lines) + '\n'
