"""Running TLC on the specification modules under /verif/spec and parsing what it prints."""
from __future__ import annotations

import json
import os
import re
import shutil
import subprocess
import tempfile
import time

SPEC_DIR = os.path.join(os.path.dirname(os.path.dirname(os.path.abspath(__file__))), 'spec')
JAR_CP = '/opt/veriftools/tla/tla2tools.jar:/opt/veriftools/tla/CommunityModules-deps.jar'


class TLCError(Exception):
    """Machinery failure: TLC could not run, or refuted a property of the specification itself."""


class TLCResult:
    def __init__(self):
        self.generated = 0
        self.distinct = 0
        self.depth = 0
        self.emits: list = []          # decoded JSON payloads of PrintT(<<"EMIT", ToJson(..)>>)
        self.tags: dict[str, list] = {}  # other tagged prints <<"TAG", "json">>
        self.ok = False
        self.violated = None           # name of violated invariant/property, if any
        self.stdout = ''
        self.wall = 0.0
        self.coverage: dict[str, int] = {}

    def summary(self):
        return {'states': self.distinct, 'transitions': self.generated, 'depth': self.depth,
                'tlc_wall_s': round(self.wall, 2)}


_EMIT_RE = re.compile(r'^<<"([A-Z_0-9]+)", (".*")>>$')


def _parse_output(out: str, res: TLCResult, keep_emits=True):
    for line in out.splitlines():
        if line.startswith('<<"'):
            m = _EMIT_RE.match(line)
            if m:
                try:
                    payload = json.loads(json.loads(m.group(2)))
                except Exception:
                    continue
                tag = m.group(1)
                if tag == 'EMIT':
                    if keep_emits:
                        res.emits.append(payload)
                else:
                    res.tags.setdefault(tag, []).append(payload)
                continue
        m = re.search(r'(\d+) states generated, (\d+) distinct states found', line)
        if m:
            res.generated = int(m.group(1))
            res.distinct = int(m.group(2))
        m = re.search(r'depth of the complete state graph search is (\d+)', line)
        if m:
            res.depth = int(m.group(1))
        if 'Model checking completed. No error has been found.' in line:
            res.ok = True
        m = re.search(r'Invariant (\S+) is violated', line)
        if m:
            res.violated = m.group(1)
        m = re.search(r'(?:Action|Temporal) property (\S+) is violated|property (\S+) was violated', line)
        if m:
            res.violated = m.group(1) or m.group(2)
        if 'Temporal properties were violated' in line:
            res.violated = res.violated or 'temporal'
        m = re.match(r'^<(\w+) line \d+, col \d+ to line \d+, col \d+ of module (\w+)>: (\d+):(\d+)', line)
        if m:
            res.coverage[m.group(1)] = res.coverage.get(m.group(1), 0) + int(m.group(4))


def run_tlc(module: str, cfg_text: str, workers: int | str = 16, simulate: str | None = None, depth: int | None = None,
            seed: int | None = None, env: dict | None = None, timeout: float = 3600, coverage: bool = False,
            deadlock: bool = False, extra: list | None = None, expect_ok: bool = True, keep_emits: bool = True,
            heap: str = '8g') -> TLCResult:
    """Run TLC on spec/<module>.tla with the given cfg text (written to a scratch dir next to copies of the spec)."""
    work = tempfile.mkdtemp(prefix='vtlc_')
    try:
        for f in os.listdir(SPEC_DIR):
            if f.endswith('.tla'):
                shutil.copy(os.path.join(SPEC_DIR, f), work)
        with open(os.path.join(work, module + '.cfg'), 'w') as f:
            f.write(cfg_text)
        args = ['java', '-XX:+UseParallelGC', '-Xss64m', f'-Xmx{heap}', '-cp', JAR_CP, 'tlc2.TLC',
                '-workers', str(workers), '-metadir', os.path.join(work, 'states'), '-noGenerateSpecTE']
        if not deadlock:
            args.append('-deadlock')
        if simulate is not None:
            args += ['-simulate', simulate]
        if depth is not None:
            args += ['-depth', str(depth)]
        if seed is not None:
            args += ['-seed', str(seed)]
        if coverage:
            args += ['-coverage', '1']
        if extra:
            args += extra
        args += ['-config', module + '.cfg', module]
        e = dict(os.environ)
        if env:
            e.update(env)
        t0 = time.time()
        try:
            cp = subprocess.run(args, cwd=work, env=e, capture_output=True, timeout=timeout)
        except subprocess.TimeoutExpired as te:
            raise TLCError(f'TLC timed out after {timeout}s on {module}') from te
        res = TLCResult()
        res.wall = time.time() - t0
        out = cp.stdout.decode('utf-8', 'replace')
        res.stdout = out
        _parse_output(out, res, keep_emits)
        if simulate is not None and cp.returncode == 0 and res.violated is None:
            res.ok = True
        if expect_ok and not res.ok:
            tail = '\n'.join([l for l in out.splitlines() if 'rror' in l or 'xception' in l or 'ttempted' in l][:12] + out.splitlines()[-30:])
            raise TLCError(f'TLC did not complete cleanly on {module} (rc={cp.returncode}, violated={res.violated}):\n{tail}')
        return res
    finally:
        shutil.rmtree(work, ignore_errors=True)


def sany(module_path: str) -> tuple[bool, str]:
    cp = subprocess.run(['java', '-cp', JAR_CP, 'tla2sany.SANY', os.path.basename(module_path)],
                        cwd=os.path.dirname(module_path), capture_output=True, timeout=300)
    out = cp.stdout.decode('utf-8', 'replace') + cp.stderr.decode('utf-8', 'replace')
    ok = cp.returncode == 0 and 'Semantic errors' not in out and 'Parse Error' not in out and '***' not in out.replace('*** Errors', '***')
    return ok, out
