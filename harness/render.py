"""Abstract program (Asm.tla line records) -> concrete source files for the carrier ISA, and parsing of outputs."""
from __future__ import annotations

import re

from harness.carrier import carrier_yaml

NAMES = {
    'g1': 'glob1', 'g2': 'glob2', 'f1': '_1st', 'l1': '.loc1', 'l2': '.loc2',
    'kg1': 'KGLOB1', 'kg2': 'KGLOB2', 'kf1': '_KFIL1', 'pd1': 'pdat1', 'pd2': 'pdat2', 'pc1': 'PCON1', 'rg': 'sp',
    'S1': 'SYM1', 'S2': 'SYM2', 'S3': 'SYM3',
    'z1': 'zone1', 'z2': 'zone2', 'z3': 'zone3', 'GLOBAL': 'GLOBAL',
    # names that differ from others only in ways that must matter: a zone called Global is not GLOBAL; _1st (f1) is a file label like any other;
    # S is an ordinary one-letter label
    'z4': 'Global', 'f2': '_fil2', 'g3': 'S',
}


def nm(n):
    return NAMES.get(n, n)


def operand(n, a):
    return nm(n) if n else str(a)


def line_text(k, n, a, b):
    if k == 'lab':
        return f'{nm(n)}:'
    if k == 'labreg':
        return 'a:'
    if k == 'labkw':
        return 'org:'
    if k == 'const':
        return f'{nm(n)} = {a}'
    if k == 'i1':
        return 'nop'
    if k == 'm2':
        return 'two4'
    if k == 'ustr':
        return '.cstr "\\u0141"'
    if k == 'wstr':
        return '.2byte "AB"'
    if k == 'rstr':
        return '"\u00e9"'
    if k == 'i2':
        return f'ld8 {operand(n, a)}'
    if k == 'i3':
        return f'ld16 {operand(n, a)}'
    if k == 'brl':
        return f'bra {operand(n, a)}'
    if k == 'mbr':
        return f'nbn {operand(n, a)}'
    if k == 'byte':
        vals = [operand(n, a)] + [str(a + j) for j in range(1, b)]
        return '.byte ' + ', '.join(vals)
    if k == 'fill':
        return f'.fill {a}, {b}'
    if k == 'fillr':
        return f'.fill {a}, {nm(n)}'
    if k == 'zero':
        return f'.zero {a}'
    if k == 'zuntil':
        return f'.zerountil {a}'
    if k == 'org':
        return f'.org {a}'
    if k == 'orgl':
        return f'.org {nm(n)} + {a}'
    if k == 'orgz':
        return f'.org {a} "{nm(n)}"'
    if k == 'zone':
        return f'.memzone {nm(n)}'
    if k == 'align':
        return '.align' if a == 0 else f'.align {a}'
    if k == 'mute':
        return '#mute'
    if k == 'unmute':
        return '#unmute'
    if k == 'ifdef':
        return f'#ifdef {nm(n)}'
    if k == 'ifndef':
        return f'#ifndef {nm(n)}'
    if k == 'if':
        return f'#if {nm(n)} == {a}'
    if k == 'ifnz':
        return f'#if {nm(n)}'
    if k == 'elif':
        return f'#elif {nm(n)} == {a}'
    if k == 'else':
        return '#else'
    if k == 'endif':
        return '#endif'
    if k == 'define':
        return f'#define {nm(n)} {a}' if a >= 0 else f'#define {nm(n)}'
    if k == 'alias':
        return f'#define {nm(n)} {nm("S1")}'
    if k == 'mkzone':
        return f'#create_memzone {nm(n)} {a} {b}'
    raise ValueError(f'unknown line kind {k}')


JOINABLE = {'i1', 'i2', 'i3', 'byte', 'm2', 'fill', 'zero', 'raw', 'wstr'}


def render_prog(prog, inline_includes=False, join_labels=False):
    """prog: list of [k, n, a, b]. Returns (files {name: text}, pos {prog index (1-based): (filename, lineno)}).

    join_labels: a label line directly followed (in the same file) by an instruction / data line is written in front of it on
    the same source line (label placement carries no meaning).

    incb/ince brackets become '#include "incK.asm"' + a separate file, or (inline_includes) are pasted in place
    (used for the C17 paste-equivalence: file-scope names are then renamed apart by the caller).
    """
    files = {'main.asm': []}
    stack = ['main.asm']
    pos = {}
    ninc = 0
    for idx, (k, n, a, b) in enumerate(prog, start=1):
        cur = stack[-1]
        if k == 'incb':
            ninc += 1
            fname = f'inc{ninc}.asm'
            if inline_includes:
                files[cur].append(f'; begin {fname}')
                stack.append(cur)
            else:
                files[cur].append(f'#include "{fname}"')
                files[fname] = []
                stack.append(fname)
            pos[idx] = (cur, len(files[cur]))
            continue
        if k == 'ince':
            stack.pop()
            if inline_includes:
                files[stack[-1]].append('; end include')
            continue
        if k in ('lzone', 'lorgz', 'lorg'):
            # the directive with a uniquely named label in front of it on the same source line
            files[cur].append(f'Entry{idx}: ' + line_text(k[1:], n, a, b))
            pos[idx] = (cur, len(files[cur]))
            continue
        if join_labels and k in JOINABLE and idx >= 2 and prog[idx - 2][0] == 'lab' and pos.get(idx - 1, (None, 0)) == (cur, len(files[cur])):
            files[cur][-1] += ' ' + line_text(k, n, a, b)
        else:
            files[cur].append(line_text(k, n, a, b))
        pos[idx] = (cur, len(files[cur]))
    return {f: '\n'.join(ls) + '\n' for f, ls in files.items()}, pos


def isa_for(params: dict) -> str:
    """params: origin, addr_bits, page_size, pre_zones [(n,s,e)], pre_data [(n,a,v,sz)], init_defs [(n,v)], endian."""
    zones = [(nm(n), s, e) for (n, s, e) in params.get('pre_zones', [])]
    data = [(nm(n), a, v, sz) for (n, a, v, sz) in params.get('pre_data', [])]
    syms = [(nm(n), (str(v) if v >= 0 else None)) for (n, v) in params.get('init_defs', [])]
    return carrier_yaml(embedded_strings=True, address_size=params.get('addr_bits', 16), endian=params.get('endian', 'little'),
                        origin=params.get('origin', None), zones=zones or None, data=data or None,
                        symbols=syms or None, page_size=params.get('page_size', None))


# ---------------------------------------------------------------- parsing outputs

_ROW = re.compile(r'^\s*(\d+)?\s*\|\s*([0-9a-f]*)\s*\|((?:\s[0-9a-f]{2})*\s*)\|(.*)$')


def parse_listing(text: str):
    """Returns rows: list of dict(file, line, addr|None, bytes[list of int], instr). Continuation rows are merged."""
    rows = []
    cur_file = None
    for raw in text.splitlines():
        if raw.startswith('File: '):
            cur_file = raw[6:].strip()
            continue
        if '|' not in raw or raw.startswith('---'):
            continue
        parts = raw.split('|')
        if len(parts) < 5:
            continue
        lno = parts[0].strip()
        if lno == 'line':
            continue
        addr = parts[1].strip()
        bs = [int(x, 16) for x in parts[2].split()] if re.fullmatch(r'\s*(?:[0-9a-f]{2}\s*)*', parts[2]) else None
        if bs is None:
            continue
        if lno == '':
            if rows:
                rows[-1]['bytes'].extend(bs)
            continue
        if not lno.isdigit():
            continue
        rows.append({'file': cur_file, 'line': int(lno), 'addr': int(addr, 16) if addr else None, 'bytes': bs,
                     'instr': parts[3].strip()})
    return rows


def err_class(msg: str | None) -> str:
    if not msg:
        return ''
    if 'overlaps with bytecode' in msg:
        return 'overlap'
    return 'other'
