"""Decoders of the four pretty-print formats into address -> byte maps (trusted base of C16)."""
from __future__ import annotations

import re


class FormatError(Exception):
    pass


def decode_intel_hex(text: str) -> dict:
    mem = {}
    base = 0
    seen_eof = False
    for raw in text.splitlines():
        line = raw.strip()
        if not line:
            continue
        if seen_eof:
            raise FormatError('record after EOF record')
        if not line.startswith(':'):
            raise FormatError(f'record does not start with colon: {line[:20]}')
        try:
            data = bytes.fromhex(line[1:])
        except ValueError as e:
            raise FormatError(f'bad hex digits: {e}')
        if len(data) < 5:
            raise FormatError('record too short')
        n, addr, typ = data[0], (data[1] << 8) | data[2], data[3]
        if len(data) != n + 5:
            raise FormatError('record length mismatch')
        if sum(data) & 0xFF != 0:
            raise FormatError('checksum mismatch')
        payload = data[4:4 + n]
        if typ == 0:
            for i, b in enumerate(payload):
                a = base + addr + i
                if a in mem:
                    raise FormatError(f'address {a} given twice')
                mem[a] = b
        elif typ == 1:
            seen_eof = True
        elif typ == 2:
            base = ((payload[0] << 8) | payload[1]) << 4
        elif typ == 4:
            base = ((payload[0] << 8) | payload[1]) << 16
        elif typ in (3, 5):
            pass
        else:
            raise FormatError(f'unknown record type {typ}')
    if not seen_eof:
        raise FormatError('no EOF record')
    return mem


_DUMP = re.compile(r'^([0-9A-Fa-f]{4,8})\s+((?:(?:[0-9A-Fa-f]{2}|--)\s+){16})\|(.*)\|$')


def decode_hex_dump(text: str) -> dict:
    mem = {}
    for raw in text.splitlines():
        if not raw.strip():
            continue
        m = _DUMP.match(raw)
        if not m:
            raise FormatError(f'unparsable dump line: {raw[:60]}')
        addr = int(m.group(1), 16)
        cols = m.group(2).split()
        for i, c in enumerate(cols):
            if c != '--':
                if addr + i in mem:
                    raise FormatError('address twice')
                mem[addr + i] = int(c, 16)
    return mem


def decode_minhex(text: str) -> dict:
    """Address lines are bare hex numbers; data lines start with ':' and hold space separated bytes; a reader
    starts at address 0 and advances one address per byte."""
    mem = {}
    addr = 0
    for raw in text.splitlines():
        line = raw.strip()
        if not line:
            continue
        if line.startswith(':'):
            for tok in line[1:].split():
                if not re.fullmatch(r'[0-9a-fA-F]{2}', tok):
                    raise FormatError(f'bad byte token {tok}')
                if addr in mem:
                    raise FormatError(f'address {addr} given twice')
                mem[addr] = int(tok, 16)
                addr += 1
        else:
            if not re.fullmatch(r'[0-9a-fA-F]+', line):
                raise FormatError(f'bad address line {line[:30]}')
            addr = int(line, 16)
    return mem


def decode_listing(rows) -> dict:
    """rows from render.parse_listing: the address and byte columns as a memory map."""
    mem = {}
    for r in rows:
        if r['bytes']:
            if r['addr'] is None:
                raise FormatError(f'row with bytes but no address: {r}')
            for i, b in enumerate(r['bytes']):
                a = r['addr'] + i
                if a in mem:
                    raise FormatError(f'listing gives address {a} twice')
                mem[a] = b
    return mem


# ---------------------------------------------------------------- tokenisers for spec/Trace_Formats.tla (no judgement here)

def tokenise_listing(text: str) -> list:
    """Listing text -> rows of Formats.tla, one per text row, nothing merged and nothing judged."""
    import os
    items = []
    for raw in text.splitlines():
        if raw.startswith('File: '):
            items.append({'k': 'file', 'name': os.path.basename(raw[6:].strip()), 'line': -1, 'addr': -1, 'data': []})
            continue
        cols = raw.split('|')
        if len(cols) < 5 or cols[0].strip() == 'line' or set(raw.strip()) <= set('-+'):
            continue
        try:
            line = int(cols[0]) if cols[0].strip() else -1
            addr = int(cols[1], 16) if cols[1].strip() else -1
            data = [int(t, 16) for t in cols[2].split()]
        except ValueError:
            line, addr, data = -1, 5, [999]        # a row that cannot be split into numbers: rejected by the specification
        items.append({'k': 'row', 'name': '', 'line': line, 'addr': addr, 'data': data})
    return items


BAD_ITEM = {'intel_hex': {'n': 0, 'addr': 0, 'typ': 99, 'data': [], 'chk': 0},
            'hex': {'addr': 0, 'cols': []},
            'minhex': {'k': 'data', 'a': 0, 'data': [999]}}


def tokenise(fmt: str, text: str) -> list:
    """Output text -> items of Formats.tla. Anything that cannot even be split into numbers becomes an item the
    specification rejects (unknown record type, row without sixteen columns, byte 999)."""
    items = []
    for raw in text.splitlines():
        line = raw.strip()
        if not line:
            continue
        try:
            if fmt == 'intel_hex':
                if not line.startswith(':'):
                    raise ValueError
                d = bytes.fromhex(line[1:])
                if len(d) < 5:
                    raise ValueError
                items.append({'n': d[0], 'addr': (d[1] << 8) | d[2], 'typ': d[3], 'data': list(d[4:-1]), 'chk': d[-1]})
            elif fmt == 'hex':
                m = _DUMP.match(raw)
                if not m:
                    raise ValueError
                items.append({'addr': int(m.group(1), 16), 'cols': [-1 if c == '--' else int(c, 16) for c in m.group(2).split()]})
            else:
                if line.startswith(':'):
                    items.append({'k': 'data', 'a': 0, 'data': [int(t, 16) if re.fullmatch(r'[0-9a-fA-F]{2}', t) else 999 for t in line[1:].split()]})
                else:
                    items.append({'k': 'addr', 'a': int(line, 16), 'data': []})
        except ValueError:
            items.append(dict(BAD_ITEM[fmt]))
    return items
