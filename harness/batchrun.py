"""Run a batch of cases in THIS process (so that PYTHONHASHSEED, cwd and environment of the process apply to all).
usage: python -m harness.batchrun <cases.json> <out.json> [rotate]"""
import json
import os
import shutil
import sys
import tempfile

sys.path.insert(0, os.path.dirname(os.path.dirname(os.path.abspath(__file__))))
from harness import runner  # noqa: E402


def main():
    cases = json.load(open(sys.argv[1]))
    rotate = int(sys.argv[3]) if len(sys.argv) > 3 else 0
    out = []
    root = tempfile.mkdtemp(prefix='vdet_', dir=runner.SCRATCH_ROOT)
    try:
        for i, c in enumerate(cases):
            d = os.path.join(root, str(i))
            inc = list(c.get('include_dirs', []))
            if inc and rotate:
                k = rotate % len(inc)
                inc = inc[k:] + inc[:k]
                if (rotate // len(inc)) % 2:
                    inc.reverse()
            c = dict(c, include_dirs=inc)
            r = runner.run_case(c, keep_dir=d)
            pretty = r.get('pretty')
            if pretty is not None:
                pretty = pretty.replace(d, '<DIR>')
            msg = (r.get('msg') or '').replace(d, '<DIR>')
            out.append({'status': r['status'], 'image': r['image'].hex() if r.get('image') is not None else None,
                        'pretty': pretty, 'msg': msg[:300], 'stdout': (r.get('stdout') or '').replace(d, '<DIR>')[-300:]})
            shutil.rmtree(d, ignore_errors=True)
    finally:
        shutil.rmtree(root, ignore_errors=True)
    json.dump(out, open(sys.argv[2], 'w'))


if __name__ == '__main__':
    main()
