"""Carrier ISAs: small instruction sets whose operand bytes make every label/constant value observable."""
from __future__ import annotations
import json


def carrier_yaml(address_size=16, endian='little', origin=None, zones=None, data=None, constants=None,
                 symbols=None, page_size=None, registers=('a', 'b', 'sp'), cstr_terminator=None,
                 embedded_strings=False, name='carrier', version='1.2.3', extra_general=None) -> str:
    """Return a YAML (actually JSON-compatible YAML) text of the carrier ISA."""
    general = {
        'address_size': address_size,
        'endian': endian,
        'registers': list(registers),
        'identifier': {'name': name, 'version': version, 'extension': 'asm'},
    }
    if origin is not None:
        general['origin'] = origin
    if page_size is not None:
        general['page_size'] = page_size
    if cstr_terminator is not None:
        general['cstr_terminator'] = cstr_terminator
    if embedded_strings:
        general['allow_embedded_strings'] = True
    if extra_general:
        general.update(extra_general)
    cfg = {
        'description': 'verification carrier ISA',
        'general': general,
        'operand_sets': {
            'imm8': {'operand_values': {'i8': {'type': 'numeric', 'argument': {'size': 8, 'byte_align': True}}}},
            'imm16': {'operand_values': {'i16': {'type': 'numeric', 'argument': {'size': 16, 'byte_align': True}}}},
            'imm4': {'operand_values': {'i4': {'type': 'numeric', 'argument': {'size': 4, 'byte_align': False}}}},
            'imm12': {'operand_values': {'i12': {'type': 'numeric', 'argument': {'size': 12, 'byte_align': False}}}},
            # [a], [a + offset], [a - offset]: an indirect register with an 8-bit offset expression
            'inda': {'operand_values': {'ia': {'type': 'indirect_register', 'register': 'a', 'bytecode': {'value': 1, 'size': 8},
                                               'offset': {'size': 8, 'byte_align': True}}}},
            # a branch whose operand is an address written as an expression; the field carries target - own address
            # a branch relative to the instruction's LAST byte, limited to -128 .. 127
            # a 3-bit operand code taken from the statement, limited to 0..7 (a bound of 0 is a bound)
            'nb3': {'operand_values': {'nb': {'type': 'numeric_bytecode', 'bytecode': {'size': 3, 'min': 0, 'max': 7}}}},
            'indn8': {'operand_values': {'in8': {'type': 'indirect_numeric', 'argument': {'size': 8, 'byte_align': True}}}},
            'rel8e': {'operand_values': {'rle': {'type': 'relative_address', 'offset_from_instruction_end': True,
                                                 'argument': {'size': 8, 'byte_align': True, 'min': -128, 'max': 127}}}},
            'rel8': {'operand_values': {'rl': {'type': 'relative_address', 'argument': {'size': 8, 'byte_align': True}}}},
            # a page-local jump: the low 4 bits of a target that has to lie in the instruction's own 16-byte page
            'pg4': {'operand_values': {'pa': {'type': 'address', 'argument': {'size': 4, 'byte_align': False, 'slice_lsb': True, 'match_address_msb': True}}}},
            'reg': {'operand_values': {
                'ra': {'type': 'register', 'register': 'a', 'bytecode': {'value': 1, 'size': 8}},
                'rb': {'type': 'register', 'register': 'b', 'bytecode': {'value': 2, 'size': 8}},
            }},
        },
        'instructions': {
            'nop': {'bytecode': {'value': 0xEA, 'size': 8}},
            'hlt': {'bytecode': {'value': 0x76, 'size': 8}},
            'ld8': {'bytecode': {'value': 0xA8, 'size': 8},
                    'operands': {'count': 1, 'operand_sets': {'list': ['imm8']}}},
            'ld16': {'bytecode': {'value': 0xB6, 'size': 8},
                     'operands': {'count': 1, 'operand_sets': {'list': ['imm16']}}},
            'ld4': {'bytecode': {'value': 0x5, 'size': 4},
                    'operands': {'count': 1, 'operand_sets': {'list': ['imm4']}}},
            'ld12': {'bytecode': {'value': 0x9, 'size': 4},
                     'operands': {'count': 1, 'operand_sets': {'list': ['imm12']}}},
            'n1': {'bytecode': {'value': 1, 'size': 4}},
            'n2': {'bytecode': {'value': 2, 'size': 4}},
            'jp4': {'bytecode': {'value': 7, 'size': 4}, 'operands': {'count': 1, 'operand_sets': {'list': ['pg4']}}},
            # [expr]: an indirect numeric operand with an 8-bit argument
            'ldn': {'bytecode': {'value': 0xD1, 'size': 8}, 'operands': {'count': 1, 'operand_sets': {'list': ['indn8']}}},
            'nb3': {'bytecode': {'value': 0x1B, 'size': 5}, 'operands': {'count': 1, 'operand_sets': {'list': ['nb3']}}},
            'ldo': {'bytecode': {'value': 0xD0, 'size': 8}, 'operands': {'count': 1, 'operand_sets': {'list': ['inda']}}},
            'bre': {'bytecode': {'value': 0xD9, 'size': 8}, 'operands': {'count': 1, 'operand_sets': {'list': ['rel8e']}}},
            'bra': {'bytecode': {'value': 0xD8, 'size': 8}, 'operands': {'count': 1, 'operand_sets': {'list': ['rel8']}}},
            'mov': {'bytecode': {'value': 0xC0, 'size': 8},
                    'operands': {'count': 1, 'operand_sets': {'list': ['reg']}}},
            # one operand, of which one alternative is excluded (a one-element disallowed combination)
            'mvx': {'bytecode': {'value': 0xC8, 'size': 8},
                    'operands': {'count': 1, 'operand_sets': {'list': ['reg'], 'disallowed_pairs': [['rb']]}}},
        },
    }
    cfg['macros'] = {'two4': [{'instructions': ['n1', 'n2']}],
                     # a macro whose middle step is address-relative: the step's own address is the macro's address + 1
                     'nbn': [{'operands': {'count': 1, 'operand_sets': {'list': ['imm16']}}, 'instructions': ['nop', 'bra @ARG(0)', 'nop']}]}
    pre = {}
    if zones:
        pre['memory_zones'] = [{'name': n, 'start': s, 'end': e} for (n, s, e) in zones]
    if data:
        pre['data'] = [{'name': n, 'address': a, 'value': v, 'size': sz} for (n, a, v, sz) in data]
    if constants:
        pre['constants'] = [{'name': n, 'value': v} for (n, v) in constants]
    if symbols:
        pre['symbols'] = [({'name': n, 'value': v} if v is not None else {'name': n}) for (n, v) in symbols]
    if pre:
        cfg['predefined'] = pre
    return json.dumps(cfg, indent=1)
