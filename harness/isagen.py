"""Generation of ISA definitions (as JSON-compatible YAML text) from abstract layouts of the Encode / Match / Constraint specs."""
from __future__ import annotations
import json
import yaml


def dump(cfg) -> str:
    """YAML text (integer dictionary keys survive, unlike JSON)."""
    return yaml.safe_dump(cfg, sort_keys=False, default_flow_style=None, width=200)


def base_general(endian='big', address_size=16, registers=(), extra=None):
    g = {'address_size': address_size, 'endian': endian, 'registers': list(registers),
         'identifier': {'name': 'genisa', 'version': '1.0.0', 'extension': 'asm'}}
    if extra:
        g.update(extra)
    return g


def _arg_cfg(aw, al, aen):
    a = {'size': aw, 'byte_align': bool(al)}
    if aen != 'def':
        a['endian'] = aen
    return a


def num_text(v):
    return str(v) if v >= 0 else f'0{v}'


def realise(k, op, variant, reg):
    """One abstract operand (code?, argument?) as a concrete operand definition + operand text.
    Returns (operand config, text, kind name)."""
    c, cv, cw, a, av, aw, al, aen = op
    pos = {'pre': 'prefix', 'suf': 'suffix'}.get(c)
    code = {'value': cv, 'size': cw, 'position': pos} if c != 'none' else None
    opts = []
    if a in ('rel', 'relend'):
        # the operand text is the TARGET (filled in per placement: {Tk}); the field carries target - own address
        cfg = {'type': 'relative_address', 'argument': _arg_cfg(aw, al, aen)}
        if a == 'relend':
            cfg['offset_from_instruction_end'] = True
        if (variant + k) % 2:
            cfg['use_curly_braces'] = True
            return cfg, '{{T%d}}' % k, 'relative_address' + ('(end)' if a == 'relend' else '')
        return cfg, '{T%d}' % k, 'relative_address' + ('(end)' if a == 'relend' else '')
    if a == 'slice':
        cfg = {'type': 'address', 'argument': dict(_arg_cfg(aw, al, aen), slice_lsb=True, match_address_msb=True)}
        return cfg, '{T%d}' % k, 'address(slice)'
    if c != 'none' and a == 'none':
        opts.append(('register', {'type': 'register', 'register': reg, 'bytecode': code}, reg))
        opts.append(('numeric_enumeration', {'type': 'numeric_enumeration', 'bytecode': {'size': cw, 'position': pos, 'value_dict': {7: cv, 8: (cv + 1) % (1 << cw)}}}, '3 + 4'))
        opts.append(('numeric_bytecode', {'type': 'numeric_bytecode', 'bytecode': {'size': cw, 'position': pos, 'min': 0, 'max': (1 << cw) - 1}}, num_text(cv)))
        if cw >= 2:
            # composite code: register code bits followed by the bits of a numeric index code, written as a NEGATIVE number when its
            # top bit is set (two's complement in its own width)
            half = cw // 2
            low = cv & ((1 << half) - 1)
            iv = low - (1 << half) if low >> (half - 1) else low
            idx = {f'nx{k}': {'type': 'numeric_bytecode', 'bytecode': {'size': half, 'min': -(1 << (half - 1)), 'max': (1 << half) - 1}}}
            opts.append(('indexed_register(register code + signed numeric index code)',
                         {'type': 'indexed_register', 'register': reg, 'bytecode': {'value': cv >> half, 'size': cw - half, 'position': pos}, 'index_operands': idx},
                         f'{reg} + {iv}' if iv >= 0 else f'{reg} + NEGV{-iv}'))
    elif c == 'none' and a == 'arg':
        opts.append(('numeric', {'type': 'numeric', 'argument': _arg_cfg(aw, al, aen)}, num_text(av)))
        opts.append(('enumeration', {'type': 'enumeration', 'argument': dict(_arg_cfg(aw, al, aen), value_dict={'kx': av, 'ky': 1})}, 'kx'))
        opts.append(('numeric_enumeration', {'type': 'numeric_enumeration', 'argument': dict(_arg_cfg(aw, al, aen), value_dict={7: av, 8: 1})}, '7'))
        opts.append(('indirect_numeric', {'type': 'indirect_numeric', 'argument': _arg_cfg(aw, al, aen)}, f'[{num_text(av)}]'))
        opts.append(('deferred_numeric', {'type': 'deferred_numeric', 'argument': _arg_cfg(aw, al, aen)}, f'[[ {num_text(av)} ]]'))
        if av >= 0:
            opts.append(('address', {'type': 'address', 'argument': _arg_cfg(aw, al, aen)}, num_text(av)))
    else:
        opts.append(('numeric+code', {'type': 'numeric', 'bytecode': code, 'argument': _arg_cfg(aw, al, aen)}, num_text(av)))
        opts.append(('indirect_register+offset', {'type': 'indirect_register', 'register': reg, 'bytecode': code,
                                                  'offset': _arg_cfg(aw, al, aen)}, f'[{reg} + {num_text(av)}]' if av >= 0 else f'[{reg} - {-av}]'))
        opts.append(('enumeration+both', {'type': 'enumeration', 'bytecode': {'size': cw, 'position': pos, 'value_dict': {'kx': cv, 'ky': 1}},
                                          'argument': dict(_arg_cfg(aw, al, aen), value_dict={'kx': av, 'ky': 2})}, 'kx'))
        opts.append(('indirect_numeric+code', {'type': 'indirect_numeric', 'bytecode': code, 'argument': _arg_cfg(aw, al, aen)}, f'[{num_text(av)}]'))
        # a numeric enumeration that maps its key to an operand code AND to an argument value
        opts.append(('numeric_enumeration+both', {'type': 'numeric_enumeration', 'bytecode': {'size': cw, 'position': pos, 'value_dict': {7: cv, 8: (cv + 1) % (1 << cw)}},
                                                  'argument': dict(_arg_cfg(aw, al, aen), value_dict={7: av, 8: 2})}, '3 + 4'))
        if av < 0:
            # a negative offset written as a difference followed by a further term: [r - 3 + 1] is the register plus -2
            opts.append(('indirect_register+offset(negative, two terms)', {'type': 'indirect_register', 'register': reg, 'bytecode': code, 'offset': _arg_cfg(aw, al, aen)},
                         f'[{reg} - {1 - av} + 1]'))
        if cw >= 2:
            # the operand code is a COMPOSITE: the register's code bits followed by the index operand's code bits
            half = cw // 2
            regcode = {'value': cv >> half, 'size': cw - half, 'position': pos}
            idx = {f'ix{k}': {'type': 'numeric', 'bytecode': {'value': cv & ((1 << half) - 1), 'size': half}, 'argument': _arg_cfg(aw, al, aen)}}
            opts.append(('indexed_register(composite code)', {'type': 'indexed_register', 'register': reg, 'bytecode': regcode, 'index_operands': idx},
                         f'{reg} + {num_text(av)}'))
            opts.append(('indirect_indexed_register(composite code)', {'type': 'indirect_indexed_register', 'register': reg, 'bytecode': dict(regcode),
                                                                       'index_operands': {f'jx{k}': dict(list(idx.values())[0])}},
                         f'[{reg} + {num_text(av)}]'))
    kind, cfg, text = opts[(variant + k) % len(opts)]
    return cfg, text, kind


def encode_isa(lay: dict, variant: int = 0):
    """lay: JSON layout emitted by Encode.tla. Returns (isa_text, statement_text, kinds)."""
    ops = lay['ops']
    regs = [f'r{k + 1}' for k in range(len(ops))]
    operand_sets = {}
    texts, kinds = [], []
    for k, op in enumerate(ops):
        cfg, text, kind = realise(k, op, variant, regs[k])
        operand_sets[f's{k + 1}'] = {'operand_values': {f'o{k + 1}': cfg}}
        texts.append(text)
        kinds.append(kind)
    bytecode = {'value': lay['opv'], 'size': lay['opw']}
    if lay['opEn'] != 'def':
        bytecode['endian'] = lay['opEn']
    if lay['sfx'][0]:
        bytecode['suffix'] = {'value': lay['sfx'][1], 'size': lay['sfx'][2]}
    ins = {'bytecode': bytecode}
    if ops:
        ins['operands'] = {'count': len(ops), 'operand_sets': {'list': [f's{k + 1}' for k in range(len(ops))],
                                                               'reverse_argument_order': bool(lay['revArg']),
                                                               'reverse_bytecode_order': bool(lay['revCode'])}}
    if (variant // 5) % 3 == 1:
        # the layout is hosted by a VARIANT of the instruction; the primary form (one operand more, so the statement does not
        # match it) has another opcode, an opcode suffix and the other byte order: a variant's byte code is its own, nothing of
        # the primary form's is inherited
        other = 'little' if (lay['opEn'] if lay['opEn'] != 'def' else lay['defEn']) == 'big' else 'big'
        primary = {'bytecode': {'value': 0x2B, 'size': 7, 'endian': other, 'suffix': {'value': 1, 'size': 1}},
                   'operands': {'count': len(ops) + 1, 'operand_sets': {'list': ['hostset'] * (len(ops) + 1)}}}
        operand_sets['hostset'] = {'operand_values': {'hostnum': {'type': 'numeric', 'argument': {'size': 8, 'byte_align': True}}}}
        ins = dict(primary, variants=[ins])
    cfg = {'description': 'generated', 'general': base_general(lay['defEn'], registers=regs),
           'operand_sets': operand_sets if operand_sets else {'dummy': {'operand_values': {'d': {'type': 'numeric', 'argument': {'size': 8, 'byte_align': True}}}}},
           'instructions': {'ins': ins, 'pad': {'bytecode': {'value': 0xEE, 'size': 8}}}}
    stmt = 'ins ' + ', '.join(texts) if texts else 'ins'
    return dump(cfg), stmt, kinds
