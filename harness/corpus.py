"""The repository corpus: example programs with their ISA definitions (regression / false-alarm guard)."""
from __future__ import annotations
import glob
import hashlib
import os
import shutil
import sys
import tempfile

REPO = os.environ.get('VERIF_REPO', '/repo')

EXT = {'.sap1', '.kb1', '.min64', '.min64x4', '.min-asm'}


def corpus_programs(repo: str = REPO):
    """[(config_path, source_path, include_dir)]"""
    out = []
    for cfg in sorted(glob.glob(os.path.join(repo, 'examples', '*', '*.yaml'))):
        d = os.path.dirname(cfg)
        for root, _dirs, files in os.walk(d):
            for f in sorted(files):
                if os.path.splitext(f)[1] in EXT:
                    out.append((cfg, os.path.join(root, f), root))
    return out


def corpus_configs(repo: str = REPO):
    cfgs = sorted(glob.glob(os.path.join(repo, 'examples', '*', '*.yaml')))
    cfgs += sorted(glob.glob(os.path.join(repo, 'examples', '*.yaml')))
    cfgs += sorted(glob.glob(os.path.join(repo, 'test', 'config_files', '*.yaml')))
    cfgs += sorted(glob.glob(os.path.join(repo, 'test', 'config_files', '*.json')))
    return cfgs


def assemble_corpus_one(args):
    """In-process assembly of a corpus program. Returns dict(status,msg,image,pretty)."""
    cfg, src, inc, pretty = args
    from harness import runner
    runner.import_repo()
    from bespokeasm.assembler.engine import Assembler
    d = tempfile.mkdtemp(prefix='vcorp_', dir=runner.SCRATCH_ROOT)
    try:
        out = os.path.join(d, 'o.bin')
        pp = os.path.join(d, 'o.txt')

        def go():
            Assembler(src, cfg, True, out, 0, None, 0, pretty is not None, pretty or 'listing', pp, 0,
                      [inc], []).assemble_bytecode()
        status, msg, _ = runner.guarded(go, 60.0)
        img = open(out, 'rb').read() if os.path.exists(out) else None
        ptxt = open(pp).read() if (pretty and os.path.exists(pp)) else None
        return {'status': status, 'msg': msg if isinstance(msg, str) else None, 'image': img, 'pretty': ptxt,
                'src': src, 'cfg': cfg}
    finally:
        shutil.rmtree(d, ignore_errors=True)


if __name__ == '__main__':
    sys.path.insert(0, os.path.dirname(os.path.dirname(os.path.abspath(__file__))))
    from harness import runner
    res = runner.pmap(assemble_corpus_one, [(c, s, i, None) for c, s, i in corpus_programs()])
    for r in res:
        h = hashlib.sha256(r['image']).hexdigest()[:16] if r['image'] is not None else None
        print(os.path.relpath(r['src'], REPO), r['status'], len(r['image']) if r['image'] is not None else None, h,
              (r['msg'] or '')[:80])
    runner.close_pool()
