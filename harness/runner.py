"""Driving the real bespokeasm from /repo/src (or $VERIF_REPO_SRC) in-process and through the CLI.

Every in-process run resets the process-global state bespokeasm keeps between runs, arms a watchdog,
captures sys.exit / exceptions, and returns a plain dict (the "observation").
"""
from __future__ import annotations

import contextlib
import io
import multiprocessing as mp
import os
import shutil
import signal
import subprocess
import sys
import tempfile

REPO_SRC = os.environ.get('VERIF_REPO_SRC', '/repo/src')
GUARD = 'MICHAELKAMPRATH_BESPOKEASM_VERIF'
PYTHON = '/venv/bin/python'
SCRATCH_ROOT = os.environ.get('VERIF_SCRATCH', '/dev/shm' if os.path.isdir('/dev/shm') else tempfile.gettempdir())


def _ensure_path():
    if sys.path[0] != REPO_SRC:
        sys.path.insert(0, REPO_SRC)


def import_repo():
    _ensure_path()
    import bespokeasm  # noqa
    got = os.path.realpath(os.path.dirname(bespokeasm.__file__))
    want = os.path.realpath(os.path.join(REPO_SRC, 'bespokeasm'))
    if got != want:
        raise RuntimeError(f'bespokeasm imported from {got}, expected {want}')
    return bespokeasm


def reset_globals():
    import_repo()
    from bespokeasm.assembler.label_scope import LabelScope
    from bespokeasm.assembler.line_object.instruction_line import InstructionLine
    from bespokeasm.assembler.assembly_file import AssemblyFile
    LabelScope._global_scope = None
    InstructionLine._INSTRUCTUION_EXTRACTION_PATTERN = None
    d = AssemblyFile.load_line_objects.__defaults__
    if d:
        for x in d:
            if isinstance(x, set):
                x.clear()


class Watchdog(Exception):
    pass


def _alarm(signum, frame):
    raise Watchdog()


@contextlib.contextmanager
def watchdog(seconds: float):
    old = signal.signal(signal.SIGALRM, _alarm)
    signal.setitimer(signal.ITIMER_REAL, seconds)
    try:
        yield
    finally:
        signal.setitimer(signal.ITIMER_REAL, 0)
        signal.signal(signal.SIGALRM, old)


def guarded(fn, timeout=30.0):
    """Run fn() with resets, watchdog and exit capture. Returns (status, value_or_message, output). A run that hits the watchdog is
    repeated once with ten times the limit, so that a loaded machine is not mistaken for non-termination (a real hang still hangs)."""
    global _CONFIRMED_HANGS
    if _CONFIRMED_HANGS >= 2:
        timeout = min(timeout, 3.0)      # the tree is already known to hang: do not wait long for the rest
    r = _guarded_once(fn, timeout)
    if r[0] == 'timeout' and _CONFIRMED_HANGS < 2:   # once hangs are confirmed in this process, later timeouts are believed at once
        r = _guarded_once(fn, 10 * timeout)
        if r[0] == 'timeout':
            _CONFIRMED_HANGS += 1
    return r


_CONFIRMED_HANGS = 0


def _guarded_once(fn, timeout):
    reset_globals()
    out = io.StringIO()
    try:
        with watchdog(timeout), contextlib.redirect_stdout(out), contextlib.redirect_stderr(out):
            v = fn()
        return 'ok', v, out.getvalue()
    except Watchdog:
        return 'timeout', None, out.getvalue()
    except SystemExit as e:
        code = e.code
        if code is None or code == 0:
            return 'ok', None, out.getvalue()
        return 'err', str(code), out.getvalue()
    except RecursionError as e:
        return 'err', f'EXC RecursionError {e}', out.getvalue()
    except Exception as e:  # uncaught exception == rejected (process would exit non-zero)
        return 'err', f'EXC {type(e).__name__}: {e}', out.getvalue()


def write_case(dirpath: str, case: dict) -> dict:
    """Materialise a case into dirpath. Returns paths."""
    os.makedirs(dirpath, exist_ok=True)
    cfg_name = case.get('config_name', 'isa.yaml')
    cfg_path = os.path.join(dirpath, cfg_name)
    with open(cfg_path, 'w') as f:
        f.write(case['config'])
    for name, text in case['files'].items():
        p = os.path.join(dirpath, name)
        os.makedirs(os.path.dirname(p), exist_ok=True)
        with open(p, 'w') as f:
            f.write(text)
    for target, link in case.get('links', []):          # the same file reachable under a second name (hard link)
        lp = os.path.join(dirpath, link)
        os.makedirs(os.path.dirname(lp), exist_ok=True)
        if not os.path.exists(lp):
            os.link(os.path.join(dirpath, target), lp)
    main = os.path.join(dirpath, case.get('main', 'main.asm'))
    return {'config': cfg_path, 'main': main, 'out': os.path.join(dirpath, 'out.bin'),
            'pp': os.path.join(dirpath, 'out.txt')}


def run_case(case: dict, keep_dir: str | None = None) -> dict:
    """In-process assembly of one case; a run that hits the watchdog is repeated once with ten times the limit, so that a loaded
    machine is not mistaken for non-termination (a real hang still hangs)."""
    return _run_case_once(case, keep_dir)


def _run_case_once(case: dict, keep_dir: str | None = None) -> dict:
    """In-process assembly of one case.

    case keys: config (text), files {name: text}, main, start, end, fill, pretty (format|None),
               include_dirs [relative], defines [str], sentinel (bytes|None: pre-existing out file content),
               timeout.
    returns: status ok|err|timeout, msg, image (bytes|None), file_state absent|unchanged|written,
             pretty (str|None), stdout
    """
    import_repo()
    from bespokeasm.assembler.engine import Assembler
    d = keep_dir or tempfile.mkdtemp(prefix='vcase_', dir=SCRATCH_ROOT)
    try:
        p = write_case(d, case)
        sentinel = case.get('sentinel')
        if sentinel is not None:
            with open(p['out'], 'wb') as f:
                f.write(sentinel)
        inc = [os.path.join(d, x) for x in case.get('include_dirs', [])]
        pretty = case.get('pretty')

        def go():
            asm = Assembler(
                p['main'], p['config'], case.get('binary', True), p['out'],
                int(case.get('start', 0)), case.get('end', None), int(case.get('fill', 0)),
                pretty is not None, pretty or 'listing', p['pp'], int(case.get('verbose', 0)),
                inc, list(case.get('defines', [])),
            )
            asm.assemble_bytecode()
            return None

        status, msg, out = guarded(go, case.get("timeout", 30.0))
        res = {'status': status, 'msg': msg if isinstance(msg, str) else None, 'stdout': out[-2000:]}
        if os.path.exists(p['out']):
            with open(p['out'], 'rb') as f:
                data = f.read()
            if sentinel is not None and data == sentinel:
                res['file_state'] = 'unchanged'
                res['image'] = None
            else:
                res['file_state'] = 'written'
                res['image'] = data
        else:
            res['file_state'] = 'absent'
            res['image'] = None
        if pretty is not None and os.path.exists(p['pp']):
            with open(p['pp']) as f:
                res['pretty'] = f.read()
        else:
            res['pretty'] = None
        return res
    finally:
        if keep_dir is None:
            shutil.rmtree(d, ignore_errors=True)


def run_cli(case: dict, env_extra: dict | None = None, cwd: str | None = None, keep_dir: str | None = None,
            inc_order: list | None = None) -> dict:
    """Assembly through the real CLI in a subprocess; a timeout is retried once with ten times the limit."""
    res = _run_cli_once(case, env_extra, cwd, keep_dir, inc_order)
    if res['status'] == 'timeout':
        c2 = dict(case)
        c2['timeout'] = 10 * float(case.get('timeout', 90.0))
        res = _run_cli_once(c2, env_extra, cwd, keep_dir, inc_order)
    return res


def _run_cli_once(case: dict, env_extra: dict | None = None, cwd: str | None = None, keep_dir: str | None = None,
                  inc_order: list | None = None) -> dict:
    """Assembly through the real CLI in a subprocess (exit status, file state, outputs)."""
    d = keep_dir or tempfile.mkdtemp(prefix='vcli_', dir=SCRATCH_ROOT)
    try:
        p = write_case(d, case)
        sentinel = case.get('sentinel')
        if sentinel is not None:
            with open(p['out'], 'wb') as f:
                f.write(sentinel)
        base = os.path.join(d, case.get('cli_cwd', ''))      # the directory the command is typed in (relative_paths only)
        rel = (lambda x: os.path.relpath(x, base)) if case.get('relative_paths') else (lambda x: x)     # paths as typed from inside that directory
        args = [PYTHON, '-m', 'bespokeasm', 'compile', rel(p['main']), '-c', p['config'], '-o', p['out']]
        if case.get('start'):
            args += ['-s', str(case['start'])]
        if case.get('end') is not None:
            args += ['-e', str(case['end'])]
        if case.get('fill'):
            args += ['-f', str(case['fill'])]
        if case.get('pretty'):
            args += ['-p', '-t', case['pretty'], '--pretty-print-output', p['pp']]
        incs = inc_order if inc_order is not None else case.get('include_dirs', [])
        for i in incs:
            args += ['-I', rel(os.path.join(d, i))]
        for s in case.get('defines', []):
            args += ['-D', s]
        env = {'PATH': os.environ.get('PATH', '/usr/bin:/bin'), 'PYTHONPATH': REPO_SRC, 'PYTHONHASHSEED': '0',
               'HOME': os.environ.get('HOME', '/root'), 'LANG': 'C.UTF-8'}
        if env_extra:
            env.update(env_extra)
        try:
            cp = subprocess.run(args, env=env, cwd=cwd or (base if case.get('relative_paths') else d), capture_output=True, timeout=case.get("timeout", 90.0))
            res = {'status': 'ok' if cp.returncode == 0 else 'err', 'rc': cp.returncode,
                   'stdout': cp.stdout.decode('utf-8', 'replace')[-2000:],
                   'msg': cp.stderr.decode('utf-8', 'replace')[-600:]}
        except subprocess.TimeoutExpired:
            res = {'status': 'timeout', 'rc': None, 'stdout': '', 'msg': 'timeout'}
        if os.path.exists(p['out']):
            with open(p['out'], 'rb') as f:
                data = f.read()
            if sentinel is not None and data == sentinel:
                res['file_state'], res['image'] = 'unchanged', None
            else:
                res['file_state'], res['image'] = 'written', data
        else:
            res['file_state'], res['image'] = 'absent', None
        if case.get('pretty') and os.path.exists(p['pp']):
            with open(p['pp']) as f:
                res['pretty'] = f.read()
        else:
            res['pretty'] = None
        return res
    finally:
        if keep_dir is None:
            shutil.rmtree(d, ignore_errors=True)


# ------------------------------------------------------------------ pools

def _init_worker():
    signal.signal(signal.SIGINT, signal.SIG_IGN)
    import_repo()


_POOL = None


def pool() -> mp.pool.Pool:
    global _POOL
    if _POOL is None:
        ctx = mp.get_context('fork')
        _POOL = ctx.Pool(int(os.environ.get('VERIF_WORKERS', '16')), initializer=_init_worker)
    return _POOL


def close_pool():
    global _POOL
    if _POOL is not None:
        _POOL.terminate()
        _POOL.join()
        _POOL = None


def pmap(fn, items, chunksize=None):
    items = list(items)
    if not items:
        return []
    if len(items) < 8 or os.environ.get('VERIF_WORKERS') == '1':
        return [fn(x) for x in items]
    if chunksize is None:
        chunksize = max(1, min(256, len(items) // 64))
    return pool().map(fn, items, chunksize=chunksize)


if __name__ == '__main__':
    import json
    case = json.load(open(sys.argv[1]))
    r = run_case(case)
    if r.get('image') is not None:
        r['image'] = r['image'].hex()
    print(json.dumps(r, indent=1))
