"""Common machinery of every check: evidence, violations, known findings, replay directories, exit codes."""
from __future__ import annotations

import hashlib
import json
import os
import shutil
import sys
import time

VERIF = os.path.dirname(os.path.dirname(os.path.abspath(__file__)))
EVIDENCE_DIR = os.environ.get('VERIF_EVIDENCE_DIR', os.path.join(VERIF, 'evidence'))
REPLAY_DIR = os.environ.get('VERIF_REPLAY_DIR', os.path.join(VERIF, 'replays'))
FINDINGS_FILE = os.path.join(VERIF, 'known_findings.json')


def seed_from_env() -> int:
    try:
        return int(os.environ.get('VERIF_SEED', '0'))
    except ValueError:
        return 0


def _jsonable(x):
    if isinstance(x, (bytes, bytearray)):
        return x.hex()
    if isinstance(x, dict):
        return {str(k): _jsonable(v) for k, v in x.items()}
    if isinstance(x, (list, tuple)):
        return [_jsonable(v) for v in x]
    if isinstance(x, set):
        return sorted(_jsonable(v) for v in x)
    return x


class Check:
    """Accumulates what one run of one property's check covered and found."""

    def __init__(self, prop: str, tier: str, level: str = 'model_checking'):
        self.prop = prop
        self.tier = tier
        self.level = level
        self.seed = seed_from_env()
        self.t0 = time.time()
        self.states = 0
        self.transitions = 0
        self.traces = 0          # replayed scenarios + accepted traces
        self.evaluations = 0
        self.nontrivial = set()
        self.samples = []
        self.violations = []     # dicts: desc, case, expected, observed, sig
        self.known_hits = {}     # finding id -> count
        self.notes = {}
        self.assumptions = []
        self.exhaustive = None
        self.rule = ''
        self.machinery_errors = []
        self.skipped = 0
        self._findings = load_findings().get(prop, [])

    # -- bookkeeping
    def add_tlc(self, res):
        self.states += res.distinct
        self.transitions += res.generated
        self.notes.setdefault('tlc_runs', []).append(res.summary())

    def sample(self, s, limit=6):
        if len(self.samples) < limit:
            self.samples.append(_jsonable(s))

    def nontriv(self, key):
        self.nontrivial.add(key if isinstance(key, (str, int, tuple)) else json.dumps(_jsonable(key), sort_keys=True))

    def violation(self, desc: str, case, expected=None, observed=None, sig: dict | None = None):
        """Record a candidate violation. sig: small dict describing the failing input class (matched against
        known_findings.json)."""
        v = {'desc': desc, 'case': _jsonable(case), 'expected': _jsonable(expected), 'observed': _jsonable(observed),
             'sig': sig or {}}
        fid = self._match_finding(v)
        if fid is not None:
            self.known_hits[fid] = self.known_hits.get(fid, 0) + 1
            return False
        self.violations.append(v)
        return True

    def _match_finding(self, v):
        for f in self._findings:
            if f.get('state') != 'known':
                continue
            m = f.get('match', {})
            if all(v['sig'].get(k) == val for k, val in m.items()) and m:
                return f['id']
        return None

    def machinery(self, msg: str):
        self.machinery_errors.append(msg)

    # -- finishing
    def finish(self) -> int:
        os.makedirs(EVIDENCE_DIR, exist_ok=True)
        wall = time.time() - self.t0
        cov = {
            'states': int(self.states), 'transitions': int(self.transitions),
            'traces_validated_against_impl': int(self.traces),
            'evaluations': int(max(self.evaluations, self.traces)),
            'distinct_nontrivial': len(self.nontrivial),
            'rule': self.rule,
            'samples': self.samples or [{'note': 'no sample recorded'}],
            'skipped_open_cases': self.skipped,
        }
        if self.exhaustive is not None:
            cov['exhaustive'] = bool(self.exhaustive)
        cov.update(_jsonable(self.notes))
        if self.known_hits:
            cov['known_findings_reobserved'] = self.known_hits
        ev = {'property_id': self.prop, 'tier': self.tier, 'seed': self.seed, 'level': self.level,
              'coverage': cov, 'assumptions': self.assumptions, 'wall_s': round(wall, 2),
              'violations': len(self.violations)}
        if self.machinery_errors:
            ev['coverage']['machinery_errors'] = self.machinery_errors[:5]
        with open(os.path.join(EVIDENCE_DIR, f'{self.prop}.json'), 'w') as f:
            json.dump(ev, f, indent=1, sort_keys=True)
        for f_ in self._findings:
            if f_.get('state') == 'known' and f_['id'] in self.known_hits:
                print(f"KNOWN-FINDING: property={self.prop} {f_['id']}: {f_['what']} (re-observed {self.known_hits[f_['id']]}x)")
        if self.machinery_errors:
            for m in self.machinery_errors[:5]:
                print(f'MACHINERY-ERROR property={self.prop}: {m}', file=sys.stderr)
        if self.violations:
            seen = set()
            for v in self.violations[:10]:
                path = write_replay(self.prop, v)
                if path in seen:
                    continue
                seen.add(path)
                print(f'VIOLATION property={self.prop} replay={path}')
                print(f'  {v["desc"]}')
            print(f'{self.prop} {self.tier}: {len(self.violations)} violation(s) in {wall:.1f}s')
            return 1
        if self.machinery_errors:
            return 2
        print(f'{self.prop} {self.tier}: held on everything explored '
              f'(states={self.states}, impl runs={self.traces}, nontrivial={len(self.nontrivial)}, {wall:.1f}s)')
        return 0


def load_findings() -> dict:
    if not os.path.exists(FINDINGS_FILE):
        return {}
    with open(FINDINGS_FILE) as f:
        data = json.load(f)
    out = {}
    for e in data.get('findings', []):
        out.setdefault(e['property'], []).append(e)
    return out


def write_replay(prop: str, v: dict) -> str:
    blob = json.dumps(v, sort_keys=True).encode()
    h = hashlib.sha256(blob).hexdigest()[:12]
    d = os.path.join(REPLAY_DIR, f'{prop}-{h}')
    os.makedirs(d, exist_ok=True)
    with open(os.path.join(d, 'violation.json'), 'w') as f:
        json.dump(v, f, indent=1, sort_keys=True)
    case = v.get('case')
    if isinstance(case, dict) and 'files' in case and 'config' in case:
        os.makedirs(os.path.join(d, 'src'), exist_ok=True)
        for name, text in case['files'].items():
            p = os.path.join(d, 'src', name)
            os.makedirs(os.path.dirname(p), exist_ok=True)
            with open(p, 'w') as f:
                f.write(text)
        with open(os.path.join(d, 'src', case.get('config_name', 'isa.yaml')), 'w') as f:
            f.write(case['config'])
    with open(os.path.join(d, 'why.txt'), 'w') as f:
        f.write(v['desc'] + '\n')
    return d


def clean_replays(prop: str):
    if not os.path.isdir(REPLAY_DIR):
        return
    for n in os.listdir(REPLAY_DIR):
        if n.startswith(prop + '-'):
            shutil.rmtree(os.path.join(REPLAY_DIR, n), ignore_errors=True)
