"""Generative instances of spec/Asm.tla: TLC enumerates abstract programs with their expected observation,
the harness renders each one, runs the real assembler and compares the property's projection."""
from __future__ import annotations

import os

from harness import runner, tlc
from harness.render import render_prog, isa_for, parse_listing, err_class

ALL_INVARIANTS = ['ReaderIsFold', 'Contiguity', 'ReservedEqualsEmitted', 'AlignIsLeastMultiple', 'LabelIsNextAddress',
                  'NoSilentOverlap', 'OverlapRejectionJustified', 'InsideZoneAndGlobal', 'WindowFaithful',
                  'MemIsUnmutedBytes', 'ActiveEqualsSelected', 'ResolvesOnlyToVisible', 'NoDuplicateKeys',
                  'IncludeIsPaste', 'SortIsStableInsertion']


def cfg_text(params: dict, invariants=None, emit=True, alphabet='MCAlphabet', emit_inv='Emit') -> str:
    """params: max_len, addr_bits, origin, page_size, win_start, win_end (None = no end), fill,
       pre_zones / pre_data / init_defs are named operators of the MC module (strings)."""
    inv = list(invariants if invariants is not None else ALL_INVARIANTS)
    lines = ['SPECIFICATION Spec', 'CONSTANTS',
             f'  Alphabet <- {alphabet}',
             f'  Blocks <- {params.get("blocks_op", "MCNoBlocks")}',
             f'  MaxLen = {params.get("max_len", 3)}',
             f'  AddrBits = {params.get("addr_bits", 16)}',
             f'  Origin = {params.get("origin", 0)}',
             f'  PageSize = {params.get("page_size", 1)}',
             f'  PreZones <- {params.get("pre_zones_op", "MCNoZones")}',
             f'  PreData <- {params.get("pre_data_op", "MCNoData")}',
             f'  InitDefs <- {params.get("init_defs_op", "MCNoDefs")}',
             f'  WinStart = {params.get("win_start", 0)}',
             ('  WinEnd <- NoEnd' if params.get('win_end') is None else f'  WinEnd = {params["win_end"]}'),
             f'  Fill = {params.get("fill", 0)}']
    for i in inv:
        lines.append(f'INVARIANT {i}')
    if emit:
        lines.append(f'INVARIANT {params.get("emit_inv", emit_inv)}')
    return '\n'.join(lines) + '\n'


def enumerate_scenarios(module: str, params: dict, invariants=None, alphabet='MCAlphabet', simulate=None, depth=None,
                        seed=None, timeout=3600):
    """Runs TLC once checking the design properties AND emitting every terminal scenario (single worker so
    printed lines do not interleave)."""
    res = tlc.run_tlc(module, cfg_text(params, invariants, True, alphabet), workers=1 if simulate is None else 1,
                      simulate=simulate, depth=depth, seed=seed, timeout=timeout)
    return res


def check_design(module: str, params: dict, invariants=None, alphabet='MCAlphabet', timeout=3600):
    """Property run without emission, all workers."""
    return tlc.run_tlc(module, cfg_text(params, invariants, False, alphabet), workers=16, timeout=timeout)


# ------------------------------------------------------------------ evaluation of one scenario

def build_case(scen: dict, params: dict, pretty='listing') -> tuple[dict, dict]:
    files, pos = render_prog(scen['prog'], join_labels=bool(params.get('join_labels')))
    if params.get('directive_tabs'):
        # a tab instead of the blank after every preprocessor directive keyword (kind of blank carries no meaning)
        import re
        files = {k: re.sub(r'(?m)^(#\w+) ', lambda m: m.group(1) + '\t', v) for k, v in files.items()}
    case = {'config': isa_for(params), 'files': files, 'main': 'main.asm', 'start': params.get('win_start', 0),
            'end': params.get('win_end'), 'fill': params.get('fill', 0), 'pretty': pretty,
            'include_dirs': [], 'timeout': 10.0, 'verbose': params.get('verbose', 0), 'defines': list(params.get('defines', []))}
    return case, pos


def evaluate(args):
    """Worker: returns None when the observation agrees with the specification on the projection `what`,
    else a mismatch dict. what: subset of {'status','why','image','addr','bytes'}."""
    scen, params, what = args
    if scen.get('open'):
        return {'skip': True}
    case, pos = build_case(scen, params, pretty='listing' if ({'addr', 'bytes'} & set(what)) else None)
    obs = runner.run_cli(case) if params.get('_cli') else runner.run_case(case)
    exp_status = scen['status']
    mism = []
    if obs['status'] == 'timeout':
        mism.append('implementation did not terminate within the watchdog')
    elif 'status' in what and (obs['status'] == 'ok') != (exp_status == 'ok'):
        mism.append(f'status: specification {exp_status} ({scen.get("why")}), implementation {obs["status"]} ({(obs.get("msg") or "")[:160]})')
    elif exp_status == 'ok' and obs['status'] == 'ok':
        if 'image' in what:
            exp_img = bytes(scen['image'])
            if obs['image'] != exp_img:
                mism.append(f'image: specification {exp_img.hex()} implementation {obs["image"].hex() if obs["image"] is not None else None}')
        if ({'addr', 'bytes'} & set(what)) and obs.get('pretty') is not None:
            rows = {(os.path.basename(r['file'] or ''), r['line']): r for r in parse_listing(obs['pretty'])}
            for o in scen['objs']:
                if o['i'] == 0 or o['i'] not in {int(k) for k in pos}:
                    continue
                if scen['prog'][o['i'] - 1][0] in ('lzone', 'lorgz', 'lorg'):
                    continue        # two line objects (label, directive) share this source line: its listing rows are not compared
                key = pos[o['i']]
                row = rows.get(key)
                if row is None:
                    mism.append(f'listing has no row for {key} ({o["k"]})')
                    continue
                if 'addr' in what and row['addr'] != o['addr']:
                    mism.append(f'address of line {key} ({o["k"]}): specification {o["addr"]} implementation {row["addr"]}')
                if 'bytes' in what:
                    expb = [] if o['muted'] else list(o['bytes'])
                    if row['bytes'] != expb:
                        mism.append(f'bytes of line {key} ({o["k"]}): specification {expb} implementation {row["bytes"]}')
    elif exp_status != 'ok' and obs['status'] != 'ok':
        if 'why' in what:
            if (scen.get('why') == 'overlap') != (err_class(obs.get('msg')) == 'overlap'):
                mism.append(f'rejection reason: specification {scen.get("why")} implementation {(obs.get("msg") or "")[:120]}')
    if not mism and params.get('also_no_binary') and 'status' in what and obs['status'] != 'timeout':
        # the same program with no image and no listing requested (-n): what is written does not decide what is accepted
        obs2 = runner.run_case(dict(case, binary=False, pretty=None))
        if (obs2['status'] == 'ok') != (exp_status == 'ok'):
            mism.append(f'with no binary and no listing requested: specification {exp_status} ({scen.get("why")}), implementation {obs2["status"]} ({(obs2.get("msg") or "")[:120]})')
    if not mism:
        return None
    return {'mismatch': mism, 'case': case, 'scenario': scen['prog'],
            'expected': {k: scen.get(k) for k in ('status', 'why', 'image', 'objs', 'labs')},
            'observed': {'status': obs['status'], 'msg': obs.get('msg'), 'image': obs['image'].hex() if obs.get('image') is not None else None,
                         'listing': obs.get('pretty')}}


def replay_scenarios(chk, scens, params, what, nontrivial_kinds=None, sig_fn=None):
    """Replays scenarios through the implementation and records violations in chk."""
    results = runner.pmap(evaluate, [(s, params, what) for s in scens])
    k = params.get('cli_sample', 0)
    if k:
        # a sample also through the real command line front end (option parsing, defaults, exit status)
        import random
        pick = random.Random(len(scens)).sample(scens, min(k, len(scens)))
        cres = runner.pmap(evaluate, [(s, dict(params, _cli=True), [w for w in what if w in ('status', 'image')]) for s in pick])
        scens = list(scens) + pick
        results = list(results) + [(dict(r, mismatch=['through the command line: ' + m for m in r['mismatch']]) if (r and not r.get('skip')) else r) for r in cres]
    for s, r in zip(scens, results):
        chk.traces += 1
        kinds = {l[0] for l in s['prog']}
        if nontrivial_kinds is None or (kinds & nontrivial_kinds):
            chk.nontriv(tuple(tuple(l) for l in s['prog']) + (params.get('win_start', 0), params.get('win_end'), params.get('tag', '')))
        if r is None:
            continue
        if r.get('skip'):
            chk.skipped += 1
            continue
        sig = sig_fn(s, r) if sig_fn else {}
        chk.violation('; '.join(r['mismatch'][:3]) + ' | program: ' + ' / '.join(_fmt(l) for l in s['prog']),
                      r['case'], r['expected'], r['observed'], sig)


def _fmt(l):
    from harness.render import line_text
    try:
        if l[0] in ('incb', 'ince'):
            return l[0]
        return line_text(*l)
    except Exception:
        return str(l)


def run_instances(chk, instances, what, kinds, module='MC_Asm', sig_fn=None, invariants=None):
    """instances: iterable of (tag, params, alphabet, simulate-or-None). Enumerate with TLC (design properties checked
    in the same run), replay every emitted scenario into the implementation."""
    for tag, params, alpha, sim in instances:
        params = dict(params, tag=tag)
        if sim is None:
            res = enumerate_scenarios(module, params, alphabet=alpha, invariants=invariants)
        else:
            res = enumerate_scenarios(module, params, alphabet=alpha, simulate=sim, depth=params['max_len'] + 3,
                                      seed=chk.seed + 1, invariants=invariants)
            chk.exhaustive = chk.exhaustive and True
        chk.add_tlc(res)
        chk.notes.setdefault('instances', []).append({'tag': tag, 'alphabet': alpha, 'scenarios': len(res.emits),
                                                      'mode': 'simulate' if sim else 'exhaustive',
                                                      'window': [params.get('win_start', 0), params.get('win_end')]})
        picks = [s for s in res.emits if len(s['prog']) >= 2][:1]
        for s in picks:
            chk.sample({'instance': tag, 'program': [_fmt(l) for l in s['prog']], 'status': s['status'], 'why': s['why'],
                        'image': s['image']})
        replay_scenarios(chk, res.emits, params, what, kinds, sig_fn)
