"""Code -> specification: traces recorded from real runs validated against spec/Trace_Asm.tla."""
import copy
import os
import random
import shutil
import tempfile

from harness import runner, traces, corpus
from harness.carrier import carrier_yaml

WINDOWS = [(0, None, 0), (3, None, 234), (17, 4000, 255), (100, 163, 0), (5000, None, 7)]


def _record_one(args):
    kind, a, b, c, win = args
    runner.import_repo()
    from bespokeasm.assembler.engine import Assembler
    d = tempfile.mkdtemp(prefix='vtrr_', dir=runner.SCRATCH_ROOT)
    try:
        out = os.path.join(d, 'o.bin')
        s, e, f = win
        if kind == 'src':
            open(os.path.join(d, 'isa.yaml'), 'w').write(b)
            open(os.path.join(d, 'm.asm'), 'w').write(a)
            fn = lambda: Assembler(os.path.join(d, 'm.asm'), os.path.join(d, 'isa.yaml'), True, out, s, e, f, False, 'listing', 'stdout', 0, [], []).assemble_bytecode()
            label = ('random', a)
        else:
            fn = lambda: Assembler(a, b, True, out, s, e, f, False, 'listing', 'stdout', 0, [c], []).assemble_bytecode()
            label = ('corpus', os.path.relpath(a, corpus.REPO))
        status, msg, ev, img = traces.record(fn, out)
        t = traces.to_trace(status, ev, img)
        return label, status, msg, t
    finally:
        shutil.rmtree(d, ignore_errors=True)


def run_traces(chk, prop, windows=False, selftest=True):
    quick = chk.tier == 'quick'
    rng = random.Random(chk.seed * 31 + 2)
    jobs = []
    isa = carrier_yaml(zones=[('zone1', 40000, 40100)])
    nrand = 80 if quick else 1500
    for n in range(nrand):
        src = traces.random_program(rng, rng.randrange(5, 80 if quick else 300))
        win = (WINDOWS[n % len(WINDOWS)] if not quick else WINDOWS[1 + n % 2]) if windows else (0, None, 0)
        jobs.append(('src', src, isa, None, win))
    for cfg, src, inc in corpus.corpus_programs():
        if quick and os.path.getsize(src) > 12000 and 'primes.min64x4' not in src:
            continue
        jobs.append(('corpus', src, cfg, inc, (0, None, 0)))
        if windows and (not quick or os.path.getsize(src) < 3000):
            jobs.append(('corpus', src, cfg, inc, (16, 300, 170)))
    recs = runner.pmap(_record_one, jobs)
    items, rejected_runs = [], 0
    for label, status, msg, t in recs:
        if label[0] == 'corpus' and status != 'ok':
            chk.violation(f'repository program {label[1]} no longer assembles: {status} {(msg or "")[:120]}', {'path': label[1]}, 'ok', status,
                          {'kind': 'corpus-assembles'})
            continue
        if status != 'ok' or t is None:
            rejected_runs += 1
            continue
        items.append((t[0], t[1], label))
    res = traces.validate(chk, items)
    nacc = 0
    for label, ok, where, tr in res:
        chk.traces += 1
        chk.nontriv(('trace',) + tuple(label) + (str(len(tr['image'])),))
        if ok:
            nacc += 1
            continue
        ph, k = where if where else ('?', 0)
        ev = None
        if ph in ('p1', 'p2') and 0 < k <= len(tr[ph]):
            ev = tr[ph][k - 1]
        case = {'config': isa, 'files': {'main.asm': label[1]}} if label[0] == 'random' else {'path': label[1]}
        chk.violation(f'recorded run of {label[0]} program is not a behaviour of the specification: stuck in phase {ph} at event {k}: {ev}',
                      case, 'trace accepted by Trace_Asm.tla', {'phase': ph, 'event_index': k, 'event': ev}, {'kind': 'trace', 'phase': ph})
    chk.notes['traces'] = {'recorded': len(recs), 'validated': len(items), 'accepted': nacc, 'runs_rejected_by_assembler': rejected_runs,
                           'events': sum(len(t[1]['p1']) + len(t[1]['p2']) for t in items)}
    big = max(items, key=lambda it: len(it[1]['p1'])) if items else None
    if big:
        chk.sample({'trace_of': big[2][1] if big[2][0] == 'corpus' else 'random program', 'p1_events': len(big[1]['p1']), 'p2_events': len(big[1]['p2']),
                    'image_bytes': len(big[1]['image']), 'first_p1_event': big[1]['p1'][0] if big[1]['p1'] else None})
    # demonstration of the binding: corrupted traces must be rejected
    if selftest and items:
        base = max([it for it in items if len(it[1]['p1']) > 8 and len(it[1]['image']) > 12] or items, key=lambda it: -len(it[1]['p1']))
        muts = []
        m = copy.deepcopy(base[1]); m['p1'][5]['addr'] += 1; muts.append((base[0], m, 'p1 address +1'))
        m = copy.deepcopy(base[1]); m['p1'][5]['cur'] += 1; muts.append((base[0], m, 'p1 cursor +1'))
        m = copy.deepcopy(base[1]); del m['p2'][6]; muts.append((base[0], m, 'p2 event removed'))
        m = copy.deepcopy(base[1]); m['image'][len(m['image']) // 2] ^= 1; muts.append((base[0], m, 'image bit flipped'))
        m = copy.deepcopy(base[1]); m['image'].append(0); muts.append((base[0], m, 'image one byte longer'))
        r2 = traces.validate(chk, muts, diagnose=False)
        bad = [l for l, ok, _, _ in r2 if ok]
        chk.notes['trace_selftest'] = {'corruptions': [l for l, _, _, _ in r2], 'rejected': len(r2) - len(bad)}
        if bad:
            chk.machinery(f'trace specification accepted corrupted traces: {bad}')


def _record_read(args):
    kind, a, b, c, init_syms = args
    runner.import_repo()
    from bespokeasm.assembler.engine import Assembler
    d = tempfile.mkdtemp(prefix='vtrd_', dir=runner.SCRATCH_ROOT)
    try:
        out = os.path.join(d, 'o.bin')
        if kind == 'files':
            open(os.path.join(d, 'isa.yaml'), 'w').write(b)
            for f, t in a.items():
                open(os.path.join(d, f), 'w').write(t)
            fn = lambda: Assembler(os.path.join(d, 'main.asm'), os.path.join(d, 'isa.yaml'), True, out, 0, None, 0, False, 'listing', 'stdout', 0, [], []).assemble_bytecode()
            label = ('random', a)
        else:
            fn = lambda: Assembler(a, b, True, out, 0, None, 0, False, 'listing', 'stdout', 0, [c], []).assemble_bytecode()
            label = ('corpus', os.path.relpath(a, corpus.REPO))
        status, msg, ev, img = traces.record(fn, out)
        fb = [('GLOBAL', 0, 65535), ('zone1', 40000, 40100)] if kind == 'files' else None
        return label, status, traces.to_read_trace(ev, init_syms, fb)
    finally:
        shutil.rmtree(d, ignore_errors=True)


def run_read_traces(chk):
    """Read-phase traces (condition stack, mute counter, zone, label scope identity) of random multi-file programs and the corpus,
    validated by spec/Trace_Read.tla."""
    import yaml
    quick = chk.tier == 'quick'
    rng = random.Random(chk.seed * 131 + 8)
    isa = carrier_yaml(zones=[('zone1', 40000, 40100)], symbols=[('SYM5', '1')])
    jobs = []
    for n in range(150 if quick else 2500):
        jobs.append(('files', traces.random_files(rng, rng.randrange(5, 60 if quick else 200)), isa, None, ['SYM5']))
    for cfg, src, inc in corpus.corpus_programs():
        if quick and os.path.getsize(src) > 12000:
            continue
        try:
            conf = yaml.safe_load(open(cfg))
            syms = [s['name'] for s in ((conf.get('predefined') or {}).get('symbols') or [])]
        except Exception:
            syms = []
        jobs.append(('corpus', src, cfg, inc, syms))
    recs = runner.pmap(_record_read, jobs)
    items = [(t[0], t[1], label + (status,)) for label, status, t in recs if t is not None]
    res = traces.validate_read(chk, items)
    nacc = 0
    for label, ok, k, tr in res:
        chk.traces += 1
        chk.nontriv(('readtrace', str(label[1])[:200], len(tr['events'])))
        if ok:
            nacc += 1
            continue
        ev = tr['events'][k - 1] if 0 < k <= len(tr['events']) else None
        case = {'config': isa, 'files': label[1]} if label[0] == 'random' else {'path': label[1]}
        chk.violation(f'read phase of a {label[0]} program is not a behaviour of the specification: event {k} {ev}', case,
                      'accepted by Trace_Read.tla', {'event_index': k, 'event': ev}, {'kind': 'read-trace'})
    chk.notes['read_traces'] = {'recorded': len(recs), 'validated': len(items), 'accepted': nacc,
                                'events': sum(len(t[1]['events']) for t in items),
                                'with_conditionals': sum(1 for t in items if any(e['k'] in ('ifdef', 'ifndef', 'ifx') for e in t[1]['events'])),
                                'with_includes': sum(1 for t in items if any(e['k'] == 'incb' for e in t[1]['events']))}
    # binding demonstration
    cand = [it for it in items if len(it[1]['events']) > 12 and any(e['ev'] == 'line' and not e['comp'] for e in it[1]['events'])]
    if cand:
        base = cand[0]
        muts = []
        idx = next(i for i, e in enumerate(base[1]['events']) if e['ev'] == 'line' and not e['comp'])
        m = copy.deepcopy(base[1]); m['events'][idx]['comp'] = True; muts.append((base[0], m, 'excluded line reported compiled'))
        m = copy.deepcopy(base[1]); m['events'][idx]['muted'] = not m['events'][idx]['muted']; muts.append((base[0], m, 'mute flag flipped'))
        m = copy.deepcopy(base[1]); m['events'][idx]['zone'] = 'z9'; muts.append((base[0], m, 'zone changed'))
        li = [i for i, e in enumerate(base[1]['events']) if e['ev'] == 'line']
        # a compiled plain line (it opens no scope) whose scope was already seen on an earlier line: a fresh identity there is wrong
        ev_ = base[1]['events']
        si = next((i for i in reversed(li) if ev_[i]['comp'] and ev_[i]['k'] in ('i1', 'i2', 'i3', 'byte', 'raw', 'fill')
                   and any(ev_[j]['scope'] == ev_[i]['scope'] and ev_[j].get('file') == ev_[i].get('file') for j in li if j < i)), None)
        if si is not None:
            m = copy.deepcopy(base[1]); m['events'][si]['scope'] = 999; muts.append((base[0], m, 'scope identity changed'))
        r2 = traces.validate_read(chk, muts)
        bad = [l for l, ok, _, _ in r2 if ok]
        chk.notes['read_trace_selftest'] = {'corruptions': [l for l, _, _, _ in r2], 'rejected': len(r2) - len(bad)}
        if bad:
            chk.machinery(f'Trace_Read accepted corrupted traces: {bad}')
    ex = max(items, key=lambda it: len(it[1]['events'])) if items else None
    if ex:
        chk.sample({'read_trace_of': ex[2][1] if ex[2][0] == 'corpus' else 'random multi-file program', 'events': len(ex[1]['events']),
                    'first_events': [{k: v for k, v in e.items()} for e in ex[1]['events'][:3]]})
