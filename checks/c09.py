"""C09 Preprocessor symbols are substituted as whole words, in definition order."""
import json
import random

from harness import runner, tlc
from harness.carrier import carrier_yaml

INV = ['UniqueNormalForm', 'NoDefinedSymbolRemains', 'OnlyWholeWords', 'CycleRejected', 'RedefinitionRejected', 'ExpansionIsTokenwise', 'Emit']
# a letter-wise renaming keeps every prefix / suffix / infix relation of the names; the second one yields names that look like
# hexadecimal literals with an H suffix (ADCH, CH) without being used as numbers
RENAMES = {'plain': {}, 'hexlike': {'A': 'AD', 'B': 'C', 'C': 'H', 'X': 'F'}}


def ren(tok, m):
    if m and tok and all(ch in 'ABCX' for ch in tok):
        return ''.join(m[ch] for ch in tok)
    if m and tok == 'ab':
        return (m['A'] + m['B']).lower()
    return tok
CONST = {'AB': 101, 'BC': 102, 'ABC': 103, 'XAB': 104, 'ab': 105}
PRE = {'NoDefs': ([], []), 'PreDefs': ([('BC', '7')], ['XAB=BC + 1']), 'PreNull': ([('BC', None)], [])}


def cfg(lines, initdefs, maxlen):
    return (f'SPECIFICATION Spec\nCONSTANTS\n  Lines <- {lines}\n  InitDefs <- {initdefs}\n  MaxLen = {maxlen}\n'
            + ''.join(f'INVARIANT {i}\n' for i in INV))


def eval_hist(args):
    """Direct API replay: one Preprocessor object, lines fed in order. Returns mismatch description or None."""
    h, outs, st, pre, variant = args
    rname, rep = variant
    m = RENAMES[rname]
    h = [dict(l, n=ren(l['n'], m), r=[ren(t, m) for t in l['r']]) for l in h]
    outs = [[ren(t, m) for t in o] for o in outs]
    if rep > 1:       # every use line repeated rep times (ExpansionIsTokenwise)
        h = [l if l['k'] == 'D' else dict(l, r=(l['r'] + ['+']) * (rep - 1) + l['r']) for l in h]
        outs = [(o + ['+']) * (rep - 1) + o for o in outs]
    runner.import_repo()
    from bespokeasm.assembler.preprocessor import Preprocessor
    from bespokeasm.assembler.line_identifier import LineIdentifier
    isa_syms, cli = PRE[pre]
    isa_syms = [(ren(n, m), None if v is None else ' '.join(ren(t, m) for t in v.split())) for n, v in isa_syms]
    cli = [ren(c.split('=')[0], m) + '=' + ' '.join(ren(t, m) for t in c.split('=')[1].split()) for c in cli]
    try:
        with runner.watchdog(5.0):
            pp = Preprocessor([{'name': n, 'value': v} for n, v in isa_syms])
            pp.add_cli_symbols(list(cli))
            k = 0
            for idx, l in enumerate(h):
                last = idx == len(h) - 1
                lid = LineIdentifier(idx + 1, 'hist')
                if l['k'] == 'D':
                    try:
                        pp.create_symbol(l['n'], ' '.join(l['r']), lid)
                        if last and st == 'redefine':
                            return f'second definition of {l["n"]} accepted'
                    except ValueError:
                        if not (last and st == 'redefine'):
                            return f'definition of {l["n"]} rejected but it is the first one'
                        return None
                else:
                    text = ' '.join(l['r'])
                    try:
                        got = pp.resolve_symbols(lid, text)
                    except SystemExit as e:
                        if last and st == 'cycle':
                            return None
                        return f'use line "{text}" rejected ({str(e)[:60]}) but specification expands it to "{" ".join(outs[k])}"'
                    if last and st == 'cycle':
                        return f'use line "{text}" leads back to a symbol being expanded but was expanded to "{got}"'
                    if any(' ' in t for t in outs[k]):
                        if got.strip() != ' '.join(outs[k]):       # a token with blanks inside (a string): compare the text exactly
                            return f'use line "{text}" -> "{got}", specification "{" ".join(outs[k])}"'
                    elif got.split() != outs[k]:
                        return f'use line "{text}" -> "{got}", specification "{" ".join(outs[k])}"'
                    k += 1
    except runner.Watchdog:
        return 'substitution did not terminate'
    except RecursionError:
        return 'substitution recursed without bound'
    return None


def e2e_case(h, pre):
    isa_syms, cli = PRE[pre]
    pre_names = {n for n, _ in isa_syms} | {c.split('=')[0] for c in cli}
    lines = [f'{n} = {v}' for n, v in CONST.items() if n not in pre_names]
    for l in h:
        if l['k'] == 'D':
            lines.append(f'#define {l["n"]} {" ".join(l["r"])}')
        else:
            lines.append('.byte ' + ' '.join(l['r']))
    return {'config': carrier_yaml(symbols=[(n, v) for n, v in isa_syms] or None), 'files': {'main.asm': '\n'.join(lines) + '\n'},
            'defines': list(cli)}


def e2e(args):
    h, outs, st, pre = args
    if any(t.startswith('"') for o in outs for t in o) and not all(len(o) == 1 for o in outs if any(t.startswith('"') for t in o)):
        return None         # a string inside arithmetic: no end-to-end expectation
    if st == 'run' and any(t.startswith('"') for l in h if l['k'] == 'U' for t in l['r']):
        return None
    case = e2e_case(h, pre)
    obs = runner.run_case(case)
    if st != 'run':
        if obs['status'] == 'ok':
            return f'end to end: specification rejects ({st}) but the program assembles', case
        return None
    if obs['status'] != 'ok':
        return f'end to end: rejected ({(obs.get("msg") or "")[:100]}) but specification accepts', case
    isa_syms, cli = PRE[pre]
    pre_names = {n for n, _ in isa_syms} | {c.split('=')[0] for c in cli}
    env = {n: v for n, v in CONST.items() if n not in pre_names}
    if any(t.startswith('"') for o in outs for t in o):
        # a use line that expands to a single string: .byte "..." emits its characters (only blanks and letters here)
        if any('\\' in o[0] for o in outs if o[0].startswith('"')):
            return None
        want = b''.join((o[0][1:-1].encode() if o[0].startswith('"') else bytes([eval(' '.join(o), {}, env) & 0xFF])) for o in outs)
    else:
        want = bytes((eval(' '.join(o), {}, env)) & 0xFF for o in outs)   # arithmetic over the specification's token list only
    if obs['image'] != want:
        return f'end to end: image {obs["image"].hex()} expected {want.hex()}', case
    return None


# the three definition sources carry the SAME replacement text to the same result: command line (through the real CLI front end),
# ISA definition, #define. Texts with commas, blanks, a quoted semicolon, a quoted comma, parentheses.
SOURCE_TEXTS = [('0x11,0x22,0x33', [0x11, 0x22, 0x33]), ('1, 2', [1, 2]), ("'a', ';', 'b'", [97, 59, 98]), ("';'", [59]), ("','", [44]),
                ('(2 + 3) * 4', [20]), ('7', [7]), ('"a;b"', [97, 59, 98]), ('"x, y"', [120, 44, 32, 121]), ('$0F', [15]), ('0FH', [15])]


def source_case(args):
    text, want, source = args
    src = '.byte TABSYM\n.byte 255\n'
    case = {'config': carrier_yaml(symbols=[('TABSYM', text)] if source == 'isa' else None),
            'files': {'main.asm': (f'#define TABSYM {text}\n' if source == 'define' else '') + src},
            'defines': [f'TABSYM={text}'] if source == 'cli' else []}
    obs = runner.run_cli(case) if source == 'cli' else runner.run_case(case)
    exp = bytes(want + [255])
    if obs['status'] != 'ok':
        return f'symbol defined by {source} with the text {text!r}: rejected ({(obs.get("msg") or "")[-120:]})', case
    if obs['image'] != exp:
        return f'symbol defined by {source} with the text {text!r}: ".byte TABSYM" emits {obs["image"].hex()}, the replacement text prescribes {exp.hex()}', case
    return None


def double_case(args):
    """Symbols!RedefinitionRejected across definition sources: a name that two sources define (the same or different
    replacement texts) is rejected, whichever two sources they are; a name each source defines once is accepted."""
    s1, s2, v1, v2, same_name = args
    n1, n2 = 'TABSYM', ('TABSYM' if same_name else 'TABSYM2')
    isa_syms, defs, cli = [], [], []
    for n, v, src in ((n1, v1, s1), (n2, v2, s2)):
        if src == 'isa':
            isa_syms.append((n, v))
        elif src == 'cli':
            cli.append(f'{n}={v}')
        else:
            defs.append(f'#define {n} {v}\n')
    case = {'config': carrier_yaml(symbols=isa_syms or None), 'files': {'main.asm': ''.join(defs) + f'.byte {n1}\n.byte {n2}\n.byte 255\n'}, 'defines': cli}
    obs = runner.run_cli(case)
    if same_name:
        if obs['status'] == 'ok':
            return f'TABSYM defined by {s1} (as {v1}) and again by {s2} (as {v2}): accepted, image {obs["image"].hex() if obs.get("image") else None}', case
        return None
    if obs['status'] != 'ok' or obs['image'] != bytes([int(v1), int(v2), 255]):
        return f'TABSYM defined by {s1} and TABSYM2 by {s2}: {obs["status"]} {(obs.get("msg") or "")[-100:]} {obs["image"].hex() if obs.get("image") else ""}', case
    return None


def run_sources(chk):
    dj = [(s1, s2, v1, v2, same) for s1 in ('cli', 'isa', 'define') for s2 in ('cli', 'isa', 'define') for (v1, v2) in (('3', '3'), ('3', '4'))
          for same in (True, False) if not (s1 == s2 == 'isa' and same)]      # one ISA definition cannot list a name twice (a YAML list may; left out)
    for j, r in zip(dj, runner.pmap(double_case, dj)):
        chk.traces += 1
        chk.nontriv(('double', j))
        if r is not None:
            chk.violation(r[0], r[1], 'rejected' if j[4] else 'accepted', r[0], {'kind': 'double-source'})
    chk.notes['double_definition_cases'] = len(dj)

    jobs = [(t, w, src) for t, w in SOURCE_TEXTS for src in ('cli', 'isa', 'define')]
    outs = runner.pmap(source_case, jobs)
    for j, r in zip(jobs, outs):
        chk.traces += 1
        chk.nontriv(('source', j[0], j[2]))
        if r is not None:
            chk.violation(r[0], r[1], j[1], r[0], {'kind': 'source'})
    chk.notes['definition_source_cases'] = len(jobs)


def run(chk):
    quick = chk.tier == 'quick'
    rng = random.Random(chk.seed + 9)
    chk.rule = ('spec/Symbols.tla: TLC enumerates every history up to MaxLen lines of definitions D(name, replacement) and use '
                'lines over identifiers that are prefixes / suffixes / infixes of one another (AB, ABC, XAB, BC), with and '
                'without symbols predefined by the ISA definition (BC) and the command line (XAB); chains, diamonds, 1-, 2- and '
                '3-cycles, uses before and after the definition. TLC checks UniqueNormalForm (recursive expansion = leftmost '
                'and rightmost single-step rewriting), NoDefinedSymbolRemains, OnlyWholeWords, CycleRejected, '
                'RedefinitionRejected. Each history is replayed line by line into one real Preprocessor object '
                '(create_symbol / resolve_symbols) and compared token for token - three times: as is, with the names renamed letter-wise to look like hexadecimal literals (ADC, ADCH, FADC, CH), and with every use line repeated nine times (ExpansionIsTokenwise); a sample goes end to end (#define lines, '
                '.byte use lines, residual identifiers bound to constants, -D and predefined.symbols). Eleven replacement texts with commas, blanks, quoted semicolons and commas are defined through each of the three sources (the command line through the real CLI front end) and must give the same bytes; a name defined by two sources (command line twice, command line and ISA definition, either and #define, same or different texts) is rejected through the real CLI, two names one per source are accepted. '
                'Non-trivial = history with a use line after at least one definition.')
    chk.assumptions = ['a cyclic symbol that is never used is not required to be rejected',
                       'end-to-end expected byte = Python arithmetic over the token list the specification produced']
    plan = [('core', 'LinesCore', 'NoDefs', 4 if quick else 5), ('core-pre', 'LinesCore', 'PreDefs', 3 if quick else 4), ('core-null', 'LinesCore', 'PreNull', 2 if quick else 3),
            ('wide', 'LinesWide', 'NoDefs', 3 if quick else 4)]
    for tag, lines, pre, ml in plan:
        res = tlc.run_tlc('MC_Symbols', cfg(lines, pre, ml), workers=16)
        chk.add_tlc(res)
        emits = res.emits
        chk.notes.setdefault('instances', []).append({'tag': tag, 'lines': lines, 'init_defs': pre, 'max_len': ml, 'histories': len(emits)})
        args = [(e['h'], e['outs'], e['st'], pre) for e in emits]
        dargs = [a + (v,) for a in args for v in (('plain', 1), ('hexlike', 1), ('plain', 9))]
        out = runner.pmap(eval_hist, dargs)
        for a, r in zip(dargs, out):
            chk.traces += 1
            h = a[0]
            if any(l['k'] == 'U' for l in h) and any(l['k'] == 'D' for l in h):
                chk.nontriv((tag, a[4], json.dumps(h)))
            if r is not None:
                chk.violation(f'{r} | names {a[4][0]}, use lines repeated {a[4][1]}x | history: ' + ' ; '.join((f'#define {l["n"]} {" ".join(l["r"])}' if l['k'] == 'D' else 'use ' + ' '.join(l['r'])) for l in h),
                              {'history': h, 'init': pre}, {'outs': a[1], 'status': a[2]}, r, {'kind': 'direct'})
        samp = [a for a in args if a[2] == 'run' and len(a[1]) >= 2]
        if samp:
            a = samp[len(samp) // 2]
            chk.sample({'instance': tag, 'history': a[0], 'expanded': a[1]})
        plain = [a for a in args if not any('\\' in t for l in a[0] for t in l['r'])]     # end to end only without string tokens
        sel = rng.sample(plain, min(len(plain), 1500 if quick else 12000))
        if pre == 'PreNull':
            sel = []        # an empty replacement leaves no arithmetic to evaluate end to end
        sel += [a for a in plain if any('"a  b"' in l['r'] for l in a[0]) and a[2] == 'run'][:300]
        out = runner.pmap(e2e, sel)
        for a, r in zip(sel, out):
            chk.traces += 1
            if r is not None:
                chk.violation(r[0] + ' | ' + json.dumps(a[0]), r[1], {'outs': a[1], 'status': a[2]}, r[0], {'kind': 'e2e'})
    run_sources(chk)
    chk.exhaustive = True
