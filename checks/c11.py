"""C11 Data and fill directives emit exactly the bytes they describe."""
from harness import runner, tlc
from harness.carrier import carrier_yaml

INV = ['LengthIsWidthTimesCount', 'HighBytesIrrelevant', 'NegationIsComplement', 'ZeroUntilInclusive', 'Emit']
DIRECTIVE = {1: '.byte', 2: '.2byte', 4: '.4byte', 8: '.8byte'}
ORG = 16


def to_int(x):
    v = int.from_bytes(bytes(x['mag']), 'little') if x['mag'] else 0
    return -v if x['neg'] else v


def spell_int(v, style):
    if style == 1 and v >= 0:
        return f'${v:x}'
    if style == 2 and v >= 0:
        return f'0x{v:X}'
    if v < 0:
        return f'-{-v}' if style == 0 else f'(0 - {-v})'
    return str(v)


def spell_char(c, quote):
    plain = {97: 'a', 32: ' ', 59: ';', 44: ',', 35: '#', 120: 'x', 58: ':'}
    if c in plain:
        return plain[c]
    if c == 10:
        return '\\n'
    if c == 9:
        return '\\t'
    if c == 92:
        return '\\\\'
    if c == 65:
        return '\\x41'
    if c == 0:
        return '\\0'
    if c == 200:
        return '\\xc8'
    if c > 255:
        return '\\u%04x' % c
    if c == 34:
        return '\\"' if quote == '"' else '"'
    if c == 39:
        return "\\'" if quote == "'" else "'"
    raise ValueError(c)


def build(e, idx):
    s = e['s']
    isa_kw = {'endian': s['en']}
    if s['kind'] == 'num':
        total = s['w'] * len(s['vals'])
        fwdval = ORG + total
        parts = []
        chars = all(33 <= to_int(x) < 127 and to_int(x) not in (34, 39, 92) for x in s['vals']) or \
            (len(s['vals']) == 3 and to_int(s['vals'][1]) == 10 and to_int(s['vals'][0]) == 97)
        for j, x in enumerate(s['vals']):
            v = to_int(x)
            style = (idx + j) % 4
            if chars and 33 <= v < 127:
                parts.append("'" + chr(v) + "'")        # a value that is a character code, written as a quoted character
                continue
            if style == 3 and abs(v) < 2 ** 31:
                d = v - fwdval
                parts.append(f'fwd + {d}' if d >= 0 else f'fwd - {-d}')
            else:
                parts.append(spell_int(v, style))
        line = f'{DIRECTIVE[s["w"]]} ' + ', '.join(parts)
    elif s['kind'] == 'str':
        q = "'" if s['form'] == 'bytesq' else '"'
        body = ''.join(spell_char(c, q) for c in s['chars'])
        if s['form'] in ('byte', 'bytesq'):
            line = f'.byte {q}{body}{q}'
        elif s['form'] == 'embedded':
            line = f'"{body}"'
            isa_kw['embedded_strings'] = True
        else:
            line = f'.{s["form"]} "{body}"'
        isa_kw['cstr_terminator'] = s['term']
    else:
        if s['form'] == 'fill':
            line = f'.fill {s["n"]}, {spell_int(s["v"], 3 if s["v"] < 0 else idx % 3)}'
        elif s['form'] == 'zero':
            line = f'.zero {s["n"]}'
        else:
            line = f'.zerountil {s["n"]}'
    org = s['cur'] if (s['kind'] == 'fill' and s['form'] == 'zuntil') else ORG
    # the directive sits in the local scope of a label (named alike in every scenario) and uses forward references
    # a string that spells a label definition ("x:") gets that very label in front of its directive, on the same line
    front = 'x: ' if (s['kind'] == 'str' and list(s['chars'][:2]) == [120, 58]) else ''
    src = f'.org {org}\nhere:\n{front}{line}\nfwd:\n.byte $EE\n'
    return {'config': carrier_yaml(**isa_kw), 'files': {'main.asm': src}, 'start': org}, line


def evaluate(args):
    e, idx = args
    case, line = build(e, idx)
    obs = runner.run_case(case)
    want = bytes(e['b']) + b'\xee'
    wide_char = e['s']['kind'] == 'str' and any(c > 255 for c in e['s']['chars'])
    if obs['status'] != 'ok' and wide_char:
        return None      # a character beyond 8 bits may be rejected; if accepted it must still emit exactly one byte
    if obs['status'] != 'ok':
        return {'m': f'"{line}" rejected: {(obs.get("msg") or "")[:140]}', 'case': case}
    if obs['image'] != want:
        return {'m': f'"{line}" emits {obs["image"][:-1].hex() if obs["image"].endswith(bytes([0xee])) else obs["image"].hex() + " (incl. what follows)"}, '
                     f'described bytes {bytes(e["b"]).hex()}', 'case': case}
    if len(e['b']) >= 2 and idx % 2 == 0:
        # an image window that begins inside the directive's bytes shows the rest of them (fill 0xA5 outside)
        k = 1 + idx % (len(e['b']) - 1)
        case2 = dict(case, start=case['start'] + k, fill=0xA5)
        obs2 = runner.run_case(case2)
        if obs2['status'] != 'ok' or obs2['image'] != want[k:]:
            return {'m': f'"{line}" seen through a window that starts {k} byte(s) into it: {obs2["image"].hex()[:60] if obs2.get("image") is not None else obs2["status"]}, '
                         f'described bytes {want[k:].hex()[:60]}', 'case': case2}
    return None


def run(chk):
    quick = chk.tier == 'quick'
    chk.rule = ('spec/Data.tla: TLC enumerates scenarios - numeric directives of width 1, 2, 4, 8 in both byte orders with value '
                'lists of 1-3 values whose magnitudes sit on every boundary of every width (0, 1, 255, 256, 2^(8w)-1, 2^(8w), '
                '2^(8w-1), 2^(8w)+1, a 64-bit pattern, a 10-byte value), positive and negative (arbitrary precision as byte '
                'sequences); strings of up to 2-3 abstract characters (plain, blank, newline / tab / backslash / quote / hex / '
                'NUL escapes, semicolon, both quote characters, comma, hash) as .byte "..", .byte \'..\', .cstr, .asciiz and '
                'embedded strings with terminators 0, 3, 255; .fill n,v / .zero n / .zerountil a around the current address. '
                'TLC checks LengthIsWidthTimesCount, HighBytesIrrelevant, NegationIsComplement, ZeroUntilInclusive. Each '
                'scenario is spelled (decimal / $hex / 0x / unary minus / parenthesised / forward-label-relative expressions in '
                'rotation) and assembled; the image must be the described bytes followed by the next line. Non-trivial = all.')
    chk.assumptions = ['a character beyond U+00FF (\\u0141) may be rejected; if accepted it emits one byte, its low byte', 'characters are spelled by harness/checks/c11.spell_char; the specification works on character codes',
                       'strings contain printable ASCII and the listed escapes only']
    res = tlc.run_tlc('MC_Data', 'SPECIFICATION Spec\nCONSTANTS\n  Scenarios <- %s\n' % ('ScQuick' if quick else 'ScThorough')
                      + ''.join(f'INVARIANT {i}\n' for i in INV), workers=16, timeout=3000)
    chk.add_tlc(res)
    outs = runner.pmap(evaluate, [(e, i) for i, e in enumerate(res.emits)])
    kinds = {}
    for i, (e, r) in enumerate(zip(res.emits, outs)):
        chk.traces += 1
        s = e['s']
        kinds[s['kind']] = kinds.get(s['kind'], 0) + 1
        chk.nontriv(str(sorted((k, str(v)) for k, v in s.items())))
        if r is not None:
            chk.violation(r['m'], r['case'], e['b'], r['m'], {'kind': s['kind'], 'form': s['form']})
    chk.notes['scenarios_by_kind'] = kinds
    for k in ('num', 'str', 'fill'):
        ex = [(i, e) for i, e in enumerate(res.emits) if e['s']['kind'] == k]
        if ex:
            i, e = ex[len(ex) // 2]
            chk.sample({'line': build(e, i)[1], 'bytes': e['b']})
    chk.exhaustive = True
