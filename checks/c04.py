"""C04 Two lines never silently occupy the same address."""
from harness import asmcheck

WHAT = ['status', 'why', 'image']
KINDS = {'org', 'orgz', 'zone', 'zuntil'}
BASE = {'addr_bits': 16, 'origin': 0, 'page_size': 4, 'pre_zones_op': 'ZonesA', 'pre_zones': [('z1', 8, 11), ('z2', 10, 13)],
        'pre_data_op': 'DataA', 'pre_data': [('pd1', 6, 85, 2)]}


def instances(tier):
    if tier == 'quick':
        yield 'core-len4', dict(BASE, max_len=4), 'AlphaC04core', None
        yield 'len3', dict(BASE, max_len=3, also_no_binary=True), 'AlphaC04', None
        yield 'predefined-blocks-clash-len2', dict(BASE, max_len=2, pre_data_op='DataClash', pre_data=[('pd1', 6, 85, 3), ('pd2', 8, 51, 2)]), 'AlphaC04core', None
        yield 'sim8', dict(BASE, max_len=8), 'AlphaC04', 'num=2000'
        # overlaps that lie entirely below / above the image window still have to be rejected
        yield 'core-len3-verbosity3', dict(BASE, max_len=3, verbose=3), 'AlphaC04core', None
        yield 'wide-predefined-value-len3', dict(BASE, max_len=3, pre_data_op='DataWide', pre_data=[('pd1', 5, 4660, 2)]), 'AlphaC04core', None
        yield 'redefined-global-len3', dict(BASE, max_len=3, origin=4, pre_zones_op='ZonesB', pre_zones=[('GLOBAL', 4, 15), ('z1', 6, 9), ('z2', 14, 17)],
                                            pre_data_op='MCNoData', pre_data=[]), 'AlphaC04global', None
        yield 'window-above-len3', dict(BASE, max_len=3, win_start=9, win_end=12), 'AlphaC04core', None
        yield 'window-below-len3', dict(BASE, max_len=3, win_start=0, win_end=0, fill=7), 'AlphaC04core', None
    else:
        yield 'core-len5', dict(BASE, max_len=5), 'AlphaC04core', None        # (the full alphabet of 17 letters has 1.4 million programs of five lines: it is covered to four lines below and by the simulation)
        yield 'len4-no-binary', dict(BASE, max_len=4, also_no_binary=True), 'AlphaC04', None
        yield 'predefined-blocks-clash-len3', dict(BASE, max_len=3, pre_data_op='DataClash', pre_data=[('pd1', 6, 85, 3), ('pd2', 8, 51, 2)]), 'AlphaC04core', None
        yield 'sim10', dict(BASE, max_len=10), 'AlphaC04', 'num=30000'
        yield 'core-len4-verbosity3', dict(BASE, max_len=4, verbose=3), 'AlphaC04core', None
        yield 'wide-predefined-value-len4', dict(BASE, max_len=4, pre_data_op='DataWide', pre_data=[('pd1', 5, 4660, 2)]), 'AlphaC04core', None
        yield 'redefined-global-len4', dict(BASE, max_len=4, origin=4, pre_zones_op='ZonesB', pre_zones=[('GLOBAL', 4, 15), ('z1', 6, 9), ('z2', 14, 17)],
                                            pre_data_op='MCNoData', pre_data=[]), 'AlphaC04global', None
        yield 'window-above-len4', dict(BASE, max_len=4, win_start=9, win_end=12), 'AlphaC04core', None
        yield 'window-below-len4', dict(BASE, max_len=4, win_start=0, win_end=0, fill=7), 'AlphaC04core', None
        yield 'window-middle-len4', dict(BASE, max_len=4, win_start=3, win_end=4), 'AlphaC04core', None


def run(chk):
    chk.rule = ('TLC enumerates every placement of byte lines of size 0..3 via absolute origins 0,1,2,3,5,6, two overlapping '
                'zones, a zone-relative origin, zerountil and one predefined data block (6..7), in any source order up to '
                'MaxLen lines, and checks NoSilentOverlap / OverlapRejectionJustified (adjacent check <=> pairwise '
                'disjointness) on the specification; each scenario is assembled by the real code and compared on '
                'accept/reject, on whether a rejection is an overlap rejection, and on the image; also with image windows (-s/-e) that leave the overlapping lines outside, with no binary and no listing requested (-n), and with an ISA definition whose two predefined blocks share an address (nothing can be accepted). '
                'Non-trivial = contains an origin / zone line; distinct by program text.')
    chk.assumptions = ['overlap between a muted and an unmuted line is left open (not generated here: no mute letters)',
                       'rejection reason is classified from the message substring "overlaps with bytecode" only']
    chk.exhaustive = True
    asmcheck.run_instances(chk, instances(chk.tier), WHAT, KINDS)
