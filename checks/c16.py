"""C16 All output formats describe the same memory contents as the binary image."""
import os

from harness import asmcheck, runner, formats, tlc
from harness.render import parse_listing

KINDS = {'byte', 'fill', 'i3', 'zuntil'}
BASE = {'origin': 0, 'page_size': 4, 'pre_zones_op': 'ZonesA', 'pre_zones': [('z1', 8, 11), ('z2', 10, 13)],
        'pre_data_op': 'DataA', 'pre_data': [('pd1', 6, 85, 2)]}
FORMATS = ['intel_hex', 'hex', 'minhex', 'listing']
DEC = {'intel_hex': formats.decode_intel_hex, 'hex': formats.decode_hex_dump, 'minhex': formats.decode_minhex}


def instances(tier):
    if tier == 'quick':
        yield 'w16-len3', dict(BASE, addr_bits=16, max_len=3), 'AlphaC16', None
        yield 'w16-window', dict(BASE, addr_bits=16, max_len=3, win_start=2, win_end=12, fill=255), 'AlphaC16', None
        yield 'rows-len3', dict({'page_size': 4, 'origin': 0}, addr_bits=16, max_len=3), 'AlphaC16rows', None
        yield 'top-of-space-len3', dict({'page_size': 8, 'origin': 0}, addr_bits=5, max_len=3), 'AlphaC02top', None
        yield 'w8-sim6', dict(BASE, addr_bits=8, max_len=6), 'AlphaC16', 'num=1200'
        yield 'w24-sim6', dict(BASE, addr_bits=24, max_len=6, origin=70000, win_start=69990), 'AlphaC16', 'num=1200'
    else:
        yield 'w16-len4', dict(BASE, addr_bits=16, max_len=4), 'AlphaC16', None
        yield 'w16-window', dict(BASE, addr_bits=16, max_len=4, win_start=2, win_end=12, fill=255), 'AlphaC16', None
        yield 'rows-len4', dict({'page_size': 4, 'origin': 0}, addr_bits=16, max_len=4), 'AlphaC16rows', None
        yield 'top-of-space-len4', dict({'page_size': 8, 'origin': 0}, addr_bits=5, max_len=4), 'AlphaC02top', None
        yield 'w8-len3', dict(BASE, addr_bits=8, max_len=3), 'AlphaC16', None
        yield 'w24-len3', dict(BASE, addr_bits=24, max_len=3, origin=70000, win_start=69990), 'AlphaC16', None
        yield 'w16-sim9', dict(BASE, addr_bits=16, max_len=9), 'AlphaC16', 'num=10000'
        yield 'w24-sim9', dict(BASE, addr_bits=24, max_len=9, origin=70000, win_start=69990), 'AlphaC16', 'num=10000'


def eval_formats(args):
    scen, params = args
    if scen.get('open') or scen['status'] != 'ok':
        return {'skip': True}
    mem = {a: b for a, b in scen['mem']}
    mism = []
    case0 = None
    for fmt in FORMATS:
        case, pos = asmcheck.build_case(scen, params, pretty=fmt)
        case0 = case0 or case
        obs = runner.run_case(case)
        if obs['status'] != 'ok':
            mism.append(f'{fmt}: implementation status {obs["status"]} ({(obs.get("msg") or "")[:100]}) but the program assembles')
            continue
        img = obs['image']
        # the image is the window [0, highest] onto mem
        exp_img = bytes(scen['image'])
        if img != exp_img:
            mism.append(f'{fmt}: image {img.hex()} differs from specification {exp_img.hex()}')
        text = obs.get('pretty') or ''
        try:
            if fmt == 'listing':
                rows = parse_listing(text)
                got = formats.decode_listing(rows)
            else:
                got = DEC[fmt](text)
        except formats.FormatError as e:
            mism.append(f'{fmt}: not decodable: {e}')
            continue
        if got != mem:
            extra = {a: got[a] for a in got if got.get(a) != mem.get(a)}
            missing = {a: mem[a] for a in mem if a not in got}
            mism.append(f'{fmt}: decodes to a different memory map: wrong/extra {dict(list(extra.items())[:6])} missing {dict(list(missing.items())[:6])}')
        if fmt == 'listing':
            byrow = {}
            for r in rows:
                byrow.setdefault((os.path.basename(r['file'] or ''), r['line']), []).append(r)
            for o in scen['objs']:
                if o['i'] == 0:
                    continue
                key = pos[o['i']]
                rs = byrow.get(key, [])
                if len(rs) != 1:
                    mism.append(f'listing shows line {key} ({o["k"]}) {len(rs)} times')
                    continue
                if rs[0]['addr'] != o['addr']:
                    mism.append(f'listing address of {key} ({o["k"]}) is {rs[0]["addr"]}, assigned {o["addr"]}')
                expb = [] if o['muted'] else list(o['bytes'])
                if rs[0]['bytes'] != expb:
                    mism.append(f'listing bytes of {key} ({o["k"]}) are {rs[0]["bytes"]}, produced {expb}')
    if not mism:
        return None
    return {'mismatch': mism, 'case': case0, 'expected': {'mem': scen['mem'], 'objs': scen['objs']}}


def eval_corpus_formats(args):
    """A repository program in one format: the decoded output must equal the memory map of the unmuted bytes recorded by the p2 hook
    events (which Trace_Asm.tla ties to the image)."""
    import shutil
    import tempfile
    from harness import traces
    cfg, src, inc, fmt = args
    runner.import_repo()
    from bespokeasm.assembler.engine import Assembler
    d = tempfile.mkdtemp(prefix='vc16_', dir=runner.SCRATCH_ROOT)
    try:
        out, pp = os.path.join(d, 'o.bin'), os.path.join(d, 'o.txt')
        status, msg, ev, img = traces.record(lambda: Assembler(src, cfg, True, out, 0, None, 0, True, fmt, pp, 0, [inc], []).assemble_bytecode(), out)
        if status != 'ok':
            return f'{fmt}: repository program no longer assembles: {status} {(msg or "")[:100]}'
        mem = {}
        for e in ev:
            if e['ev'] == 'p2' and e['has_bytes'] and not e['muted']:
                for i, b in enumerate(e['bytes']):
                    mem[e['addr'] + i] = b
        text = open(pp).read()
        try:
            got = formats.decode_listing(parse_listing(text)) if fmt == 'listing' else DEC[fmt](text)
        except formats.FormatError as ex:
            return f'{fmt}: not decodable: {ex}'
        if got != mem:
            extra = {a: got[a] for a in got if got.get(a) != mem.get(a)}
            missing = {a: mem[a] for a in mem if a not in got}
            return f'{fmt}: decodes to a different memory map: wrong/extra {dict(list(extra.items())[:5])} missing {dict(list(missing.items())[:5])} ({len(extra)}/{len(missing)})'
        if img is not None and any(img[a] != b for a, b in mem.items() if a < len(img)):
            return f'{fmt}: image differs from the recorded memory map'
        return None
    finally:
        shutil.rmtree(d, ignore_errors=True)


def format_records(args):
    """Worker: one scenario (or repository program) -> records [fmt, items, mem] for Trace_Formats.tla plus the verdict of the
    Python decoders (both must agree)."""
    kind, a, b = args
    recs = []
    if kind == 'scen':
        scen, params = a, b
        mem = [[x, y] for x, y in scen['mem']]
        for fmt in ('intel_hex', 'hex', 'minhex', 'listing'):
            case, pos = asmcheck.build_case(scen, params, pretty=fmt)
            obs = runner.run_case(case)
            if obs['status'] != 'ok' or obs.get('pretty') is None:
                continue
            what = ' / '.join(asmcheck._fmt(l) for l in scen['prog'])
            if fmt == 'listing':
                # the statements the specification's assembly produced: [file, line, addr, data] (no bytes shown for muted ones)
                stmts = [{'file': pos[o['i']][0] if o['i'] in pos else pos[str(o['i'])][0], 'line': (pos[o['i']] if o['i'] in pos else pos[str(o['i'])])[1],
                          'addr': o['addr'], 'data': [] if o['muted'] else list(o['bytes'])} for o in scen['objs'] if o['i'] != 0]
                # predefined data blocks are listed under the ISA definition's file name, line 0
                stmts += [{'file': case.get('config_name', 'isa.yaml'), 'line': 0, 'addr': o['addr'], 'data': list(o['bytes'])} for o in scen['objs'] if o['i'] == 0]
                recs.append({'fmt': fmt, 'items': formats.tokenise_listing(obs['pretty']), 'mem': mem, 'stmts': stmts, 'check_stmts': True, 'what': what})
            else:
                recs.append({'fmt': fmt, 'items': formats.tokenise(fmt, obs['pretty']), 'mem': mem, 'stmts': [], 'check_stmts': False, 'what': what})
    else:
        import shutil
        import tempfile
        from harness import traces
        cfg, src, inc = a
        runner.import_repo()
        from bespokeasm.assembler.engine import Assembler
        for fmt in ('intel_hex', 'hex', 'minhex', 'listing'):
            d = tempfile.mkdtemp(prefix='vc16r_', dir=runner.SCRATCH_ROOT)
            try:
                out, pp = os.path.join(d, 'o.bin'), os.path.join(d, 'o.txt')
                status, msg, ev, img = traces.record(lambda: Assembler(src, cfg, True, out, 0, None, 0, True, fmt, pp, 0, [inc], []).assemble_bytecode(), out)
                if status != 'ok':
                    continue
                mem = {}
                for e in ev:
                    if e['ev'] == 'p2' and e['has_bytes'] and not e['muted']:
                        for i, v in enumerate(e['bytes']):
                            mem[e['addr'] + i] = v
                txt = open(pp).read()
                recs.append({'fmt': fmt, 'items': formats.tokenise_listing(txt) if fmt == 'listing' else formats.tokenise(fmt, txt), 'mem': [[x, mem[x]] for x in sorted(mem)],
                             'stmts': [], 'check_stmts': False, 'what': os.path.basename(src)})
            finally:
                shutil.rmtree(d, ignore_errors=True)
    return recs


def run_format_traces(chk, scen_jobs):
    """Recorded outputs against spec/Formats.tla (Describes), in batches; self-test: corrupted records must be rejected."""
    import json
    import tempfile
    from harness import corpus, tlc
    jobs = [('scen', s, p) for s, p in scen_jobs]
    jobs += [('corpus', c, None) for c in corpus.corpus_programs() if chk.tier != 'quick' or os.path.getsize(c[1]) < 6000]
    recs = [r for rs in runner.pmap(format_records, jobs) for r in rs]
    # corruptions of the first records: each must be rejected
    bad = []
    for r in [x for x in recs if x['mem']][:(16 if not os.environ.get('VERIF_C16_SELFTEST_ALL') else 100000)]:       # (an output that describes no byte at all has nothing a shifted address could contradict)
        if not r['items']:
            continue
        it = json.loads(json.dumps(r['items']))
        if r['fmt'] == 'intel_hex':
            it[0]['chk'] = (it[0]['chk'] + 1) % 256
        elif r['fmt'] == 'hex':
            it[0]['addr'] += 16
        elif r['fmt'] == 'listing':
            # the address of a row that shows bytes (a row without bytes - a label, an origin, an empty fill - pins no memory cell)
            rows = [x for x in it if x['k'] == 'row' and x['line'] >= 0 and x['data']]
            if not rows:
                continue
            rows[-1]['addr'] += 1
        else:
            # shift the address that governs the first data item (an address line that no data follows pins nothing)
            di = next((i for i, x in enumerate(it) if x['k'] == 'data' and x['data']), None)
            if di is None:
                continue
            if di > 0 and it[di - 1]['k'] == 'addr':
                it[di - 1]['a'] += 1
            else:
                it.insert(di, {'k': 'addr', 'a': (1 if di == 0 else 9999), 'data': []})
        bad.append(dict(r, items=it, what='CORRUPTED ' + r['what']))
        if r['mem']:
            bad.append(dict(r, mem=r['mem'][:-1], what='CORRUPTED(mem) ' + r['what']))
    allr = recs + bad
    acc = set()
    B = 400
    for off in range(0, len(allr), B):
        part = [{'fmt': r['fmt'], 'items': r['items'], 'mem': r['mem'], 'stmts': r['stmts'], 'check_stmts': r['check_stmts']} for r in allr[off:off + B]]
        fd, path = tempfile.mkstemp(prefix='vfmt_', suffix='.json', dir=runner.SCRATCH_ROOT)
        with os.fdopen(fd, 'w') as f:
            json.dump(part, f)
        try:
            res = tlc.run_tlc('Trace_Formats', 'SPECIFICATION Spec\nINVARIANT Accepted\n', workers=8, env={'TRACE_FILE': path}, timeout=3000)
        finally:
            os.unlink(path)
        chk.add_tlc(res)
        for a in res.tags.get('ACC', []):
            acc.add(off + a['t'] - 1)
    for i, r in enumerate(recs):
        chk.traces += 1
        chk.nontriv(('fmt-trace', r['fmt'], r['what']))
        if i not in acc:
            chk.violation(f'{r["fmt"]} output does not describe the assembled memory contents (Formats.tla Describes): {r["what"][:160]}',
                          {'fmt': r['fmt'], 'items': r['items'][:20], 'mem': r['mem'][:40]}, None, 'rejected by Trace_Formats', {'kind': 'format-trace'})
    rej = sum(1 for j in range(len(recs), len(allr)) if j not in acc)
    chk.notes['format_traces'] = {'records': len(recs), 'corrupted_records_rejected': f'{rej}/{len(bad)}'}
    if rej != len(bad):
        which = [f"{allr[j]['fmt']}: {allr[j]['what'][:120]}" for j in range(len(recs), len(allr)) if j in acc]
        chk.machinery(f'Trace_Formats accepted {len(bad) - rej} corrupted record(s): the trace specification does not bind: {which}')


def run(chk):
    chk.rule = ('TLC enumerates programs over AlphaC16 (sparse maps via origins / zone / alignment, muted regions, zero-length '
                'fills and zerountil, a 7-byte fill longer than the listing row, includes, a predefined data block) for address '
                'widths 8, 16 and 24 (origin 70000 for 24); for every accepted scenario the real assembler is run once per '
                'format (intel_hex, hex dump, minhex, listing); each output is decoded by harness/formats.py into an '
                'address->byte map and must equal the specification memory map (bytes of unmuted lines), the image must equal '
                'the specification image, and the listing must show every compilable line exactly once with its address and '
                'bytes (none for muted lines). Non-trivial = has a byte-producing line.')
    chk.rule += (' spec/Formats.tla states the three machine formats as decoding machines (Intel HEX records with checksum, base records and a single final end-of-file record; dump rows of sixteen columns; minhex running address); TLC checks FunctionalWhenOk, IhxShape, PrefixMonotone, NoInventedBytes on generated outputs, and recorded outputs of a sample of scenarios and of the repository programs - tokenised without judgement - must satisfy Describes(fmt, items, memory) in spec/Trace_Formats.tla; the listing is a fourth machine (file headers, statement rows, continuation rows) and must also satisfy ShowsStatements: exactly the statements of the assembly according to the specification, each once, with its address and bytes (none for muted lines, predefined data under the ISA file); corrupted records must be rejected.')
    chk.assumptions = ['all four formats are decoded both by harness/formats.py and by spec/Formats.tla (the harness tokenisers split text into numbers without judging it)',
                       'minhex is read as: address lines set the running address, which starts at 0']
    chk.exhaustive = True
    FMT_SAMPLE = []
    import random
    rng = random.Random(chk.seed + 16)
    for tag, params, alpha, sim in instances(chk.tier):
        params = dict(params, tag=tag)
        if sim is None:
            res = asmcheck.enumerate_scenarios('MC_Asm', params, alphabet=alpha)
        else:
            res = asmcheck.enumerate_scenarios('MC_Asm', params, alphabet=alpha, simulate=sim, depth=params['max_len'] + 3, seed=chk.seed + 1)
        chk.add_tlc(res)
        scs = [s for s in res.emits if s['status'] == 'ok' and not s.get('open')]
        chk.notes.setdefault('instances', []).append({'tag': tag, 'scenarios': len(res.emits), 'accepted': len(scs),
                                                      'mode': 'simulate' if sim else 'exhaustive'})
        k = 60 if chk.tier == 'quick' else 600
        FMT_SAMPLE.extend((s, params) for s in (rng.sample(scs, k) if len(scs) > k else scs) if s['mem'])
        results = runner.pmap(eval_formats, [(s, params) for s in scs])
        for s, r in zip(scs, results):
            chk.traces += 4
            if {l[0] for l in s['prog']} & KINDS:
                chk.nontriv((tag,) + tuple(tuple(l) for l in s['prog']))
            if r is None or r.get('skip'):
                continue
            chk.violation('; '.join(r['mismatch'][:3]) + ' | program: ' + ' / '.join(asmcheck._fmt(l) for l in s['prog']),
                          r['case'], r['expected'], r['mismatch'])
        for s in scs[len(scs) // 2: len(scs) // 2 + 1]:
            chk.sample({'instance': tag, 'program': [asmcheck._fmt(l) for l in s['prog']], 'mem': s['mem']})
    # repository programs under their real ISAs (sparse 16-bit maps, long data lines, includes, muted zero-page variables)
    from harness import corpus
    jobs = [(c, s_, i, f) for (c, s_, i) in corpus.corpus_programs() if chk.tier != 'quick' or os.path.getsize(s_) < 12000 for f in FORMATS]
    outs = runner.pmap(eval_corpus_formats, jobs)
    for (c, s_, i, f), r in zip(jobs, outs):
        chk.traces += 1
        chk.nontriv(('corpus', s_, f))
        if r is not None:
            chk.violation(f'{os.path.relpath(s_, corpus.REPO)}: {r}', {'path': s_, 'format': f}, None, r, {'kind': 'corpus-format'})
    chk.notes['corpus_format_runs'] = len(jobs)
    # the formats as decoding machines of spec/Formats.tla: recorded outputs must Describe the memory contents
    res = tlc.run_tlc('Formats', 'SPECIFICATION Spec\nCONSTANTS MaxItems = %d\nINVARIANT FunctionalWhenOk\nINVARIANT IhxShape\nINVARIANT PrefixMonotone\n'
                      'INVARIANT NoInventedBytes\n' % (3 if chk.tier == 'quick' else 4), workers=16)
    chk.add_tlc(res)
    run_format_traces(chk, FMT_SAMPLE)
