"""C01 Instruction encoding is exactly the bit layout the ISA definition prescribes."""
import random
import re

from harness import runner, tlc, isagen
from checks import widepart

PACK_INV = ['MachineEqualsLayout', 'LengthIsCeil8', 'EachFieldAtItsOffset', 'AlignedOnByteBoundary', 'PaddingIsZero',
            'LittleIsByteReversed', 'Emit']
ENC_INV = ['GroupsInOrder', 'ReverseTouchesOnlyItsGroup', 'SizeIsReserved', 'AddressRelativeRoundTrip', 'Emit']


def pack_batch(items):
    """Direct replay into PackedBits / AssembledInstruction: items = list of (fields, bytes)."""
    runner.import_repo()
    from bespokeasm.assembler.bytecode.packed_bits import PackedBits
    from bespokeasm.assembler.bytecode.assembled import AssembledInstruction
    from bespokeasm.assembler.bytecode.parts import NumericByteCodePart
    from bespokeasm.assembler.line_identifier import LineIdentifier
    lid = LineIdentifier(1, 'pack')
    out = []
    for fields, exp in items:
        try:
            pb = PackedBits()
            for v, w, al, en in fields:
                pb.append_bits(v, w, bool(al), en)
            got = list(pb.get_bytes())
            ai = AssembledInstruction(lid, [NumericByteCodePart(v, w, bool(al), en, lid) for v, w, al, en in fields])
            got2 = ai.get_bytes(None, 0, ai.byte_size)
            got2 = list(got2) if got2 is not None else None
            size = ai.byte_size
        except BaseException as e:
            out.append(f'{type(e).__name__}: {e}')
            continue
        if got != exp:
            out.append(f'PackedBits gives {bytes(got).hex()}, layout {bytes(exp).hex()}')
        elif got2 != exp:
            out.append(f'AssembledInstruction.get_bytes gives {got2}, layout {exp}')
        elif size != len(exp):
            out.append(f'reserved size {size}, emitted {len(exp)}')
        else:
            out.append(None)
    return out


def enc_eval(e):
    """End to end: generated ISA + statement at two placements; the statement's bytes must be the layout's bytes."""
    lay, exp = e['l'], bytes(e['b'])
    isa, stmt, kinds = isagen.encode_isa(lay, e.get('variant', 0))
    n = len(exp)
    res = []
    # negative index codes are written through constants (NEGVn = 0-n), defined at the top of every program
    defs = ''.join(f'NEGV{x} = 0-{x}\n' for x in sorted(set(re.findall(r'NEGV(\d+)', stmt))))
    if any(k.startswith('relative_address') or k == 'address(slice)' for k in kinds):
        # address-relative operands: the statement names the target the specification computed for each of the two own addresses
        for addr, tg in zip(e['pl'], e['t']):
            text = stmt
            for k, t in enumerate(tg):
                text = text.replace('{T%d}' % k, ('lbl%d' % k) if (e.get('variant', 0) + k) % 3 == 0 else str(t))
            labs = ''.join(f'lbl{k} = {t}\n' for k, t in enumerate(tg))
            src = f'{defs}{labs}.org {addr - 3}\n.byte 1, 2, 3\n{text}\npad\n'
            case = {'config': isa, 'files': {'main.asm': src}, 'start': addr, 'end': addr + n - 1, 'fill': 0xA5}
            obs = runner.run_case(case)
            if obs['status'] != 'ok':
                return {'mismatch': f'"{text}" ({kinds}) at {addr} rejected: {(obs.get("msg") or "")[:150]}', 'case': case}
            if obs['image'] != exp:
                return {'mismatch': f'"{text}" ({kinds}) at {addr}: bytes {obs["image"].hex()}, layout prescribes {exp.hex()}', 'case': case}
            # the same statement as the middle step of a macro (other steps before and after it): same own address, same bytes
            import yaml
            cfgd = yaml.safe_load(isa)
            cfgd['macros'] = {'wrapm': [{'instructions': ['pad', text, 'pad', 'pad']}]}
            case = {'config': isagen.dump(cfgd), 'files': {'main.asm': f'{defs}{labs}.org {addr - 1}\nwrapm\npad\n'}, 'start': addr, 'end': addr + n - 1, 'fill': 0xA5}
            obs = runner.run_case(case)
            if obs['status'] != 'ok':
                return {'mismatch': f'"{text}" ({kinds}) at {addr} as a macro step rejected: {(obs.get("msg") or "")[:150]}', 'case': case}
            if obs['image'] != exp:
                return {'mismatch': f'"{text}" ({kinds}) at {addr} as a macro step: bytes {obs["image"].hex()}, layout prescribes {exp.hex()}', 'case': case}
        return None
    # second placement: other address, other surrounding program, numbers written as constants, and an earlier statement that
    # differs from the one under test only in the letter case of those constant names (and so in its operand values)
    nums = sorted(set(re.findall(r'(?<![\w$])\d+(?![\w])', stmt)), key=lambda x: -len(x))
    stmt_lc, stmt_uc, consts = stmt, stmt, []
    for j, nstr in enumerate(nums):
        if kinds and all(k in ('numeric', 'numeric+code', 'indirect_numeric', 'indirect_numeric+code', 'deferred_numeric', 'address', 'indirect_register+offset') for k in kinds):
            stmt_lc = re.sub(r'(?<![\w$])%s(?![\w])' % nstr, f'cv{j}', stmt_lc)
            stmt_uc = re.sub(r'(?<![\w$])%s(?![\w])' % nstr, f'CV{j}', stmt_uc)
            consts.append(f'cv{j} = {nstr}')
            consts.append(f'CV{j} = {(int(nstr) + 1) % 8}')
    twin = (stmt_uc + '\n') if consts else ''
    pad_n = 0
    src2 = '\n'.join(consts) + ('\n' if consts else '') + ('.org 200\n' + twin if twin else '') + f'.org 37\n.byte 1, 2, 3\nhere:\npad\n'
    for (src, start) in ((defs + stmt + '\n', 0), (defs + src2 + f'{stmt_lc}\npad\n.byte here\n', 41)):
        case = {'config': isa, 'files': {'main.asm': src}, 'start': start, 'end': start + n - 1, 'fill': 0xA5}
        obs = runner.run_case(case)
        if obs['status'] != 'ok':
            return {'mismatch': f'"{stmt}" ({kinds}) rejected: {(obs.get("msg") or "")[:150]}', 'case': case}
        if obs['image'] != exp:
            return {'mismatch': f'"{stmt}" ({kinds}) at {start}: bytes {obs["image"].hex()}, layout prescribes {exp.hex()}', 'case': case}
        res.append(obs['image'])
    return None


def chunks(xs, n):
    for i in range(0, len(xs), n):
        yield xs[i:i + n]


def run(chk):
    quick = chk.tier == 'quick'
    rng = random.Random(chk.seed + 1)
    chk.rule = ('(a) spec/Pack.tla: TLC enumerates every field list up to MaxFields over widths x byte-aligned x big/little x '
                'boundary values (0, 1, -1, 2^(w-1)-1, 2^(w-1), 2^w-1, -2^(w-1), patterns) and checks MachineEqualsLayout '
                '(cursor machine = flat concatenation), EachFieldAtItsOffset, AlignedOnByteBoundary, LengthIsCeil8, '
                'PaddingIsZero, LittleIsByteReversed; each list is replayed into the real PackedBits and AssembledInstruction '
                '(bytes and reserved size). (b) spec/Encode.tla: TLC enumerates variant layouts (default endianness, opcode '
                'size/endianness, opcode suffix, up to MaxOps operands with prefix/suffix/no code and aligned/unaligned '
                'arguments of 5/8/12 bits in default/big/little order, both reverse options) and checks GroupsInOrder and '
                'ReverseTouchesOnlyItsGroup; for each layout an ISA definition is generated, the statement is assembled at two '
                'different addresses in two different surrounding programs, and its bytes must equal the layout bytes. '
                '(c) seeded random field lists with widths 1..64 and arbitrary values (boundary-biased) are packed by the real code and each record is validated by spec/Trace_Pack.tla, which works on bit strings only (no 32-bit limit). (d) with the pack hook on, every distinct instruction encoding of the repository programs (real ISAs: 8085-like, SAP-1, KENBAK-1, Minimal 64/64x4/CPU with all their operand types) is validated the same way. Non-trivial = distinct field list / layout with at least two fields.')
    chk.assumptions = ['little-endian for a width that is not a multiple of 8: bytes least-significant first, the last byte contributing its low (w mod 8) bits',
                       'within the prefix group the first operand code is nearest to the opcode (order of the pinned commit)',
                       'each abstract operand is realised in rotation by register, enumeration, numeric_enumeration, numeric_bytecode, numeric, indirect_numeric, deferred_numeric, address, indirect_register with offset, indexed registers with composite codes; rel/relend/slice operands by relative_address (plain and curly-brace form, from start / from last byte) and sliced address, the statement placed at two own addresses (5000, 9041) with the targets Encode.tla computes (AddressRelativeRoundTrip), written as numbers or as constants',
                       'a third of the layouts is hosted by a VARIANT of the instruction whose primary form (one operand more) has another opcode, an opcode suffix and the other byte order: the bytes are a function of the selected variant\'s own layout only (Encode!Bytes takes nothing else)']
    # (a)
    for widths, mf in ([('{1, 4, 8, 12}', 2), ('{3, 5, 8, 9, 16}', 2)] if quick else [('{1, 3, 4, 8, 12}', 3), ('{5, 9, 16}', 3)]):
        res = tlc.run_tlc('Pack', 'SPECIFICATION Spec\nCONSTANTS\n  Widths = %s\n  MaxFields = %d\n' % (widths, mf)
                          + ''.join(f'INVARIANT {i}\n' for i in PACK_INV), workers=16, timeout=3000)
        chk.add_tlc(res)
        items = [([tuple(f) for f in e['f']], e['b']) for e in res.emits]
        chk.notes.setdefault('instances', []).append({'tag': 'pack', 'widths': widths, 'max_fields': mf, 'lists': len(items)})
        outs = []
        for r in runner.pmap(pack_batch, list(chunks(items, 3000)), chunksize=1):
            outs.extend(r)
        for (fields, exp), r in zip(items, outs):
            chk.traces += 1
            if len(fields) >= 2:
                chk.nontriv(('pack',) + tuple(fields))
            if r is not None:
                chk.violation(f'fields {fields}: {r}', {'fields': fields}, exp, r, {'kind': 'pack'})
        chk.sample({'instance': 'pack', 'fields(value,width,aligned,endian)': items[len(items) // 2][0], 'bytes': items[len(items) // 2][1]})
    # (b)
    res = tlc.run_tlc('MC_Encode', 'SPECIFICATION Spec\nCONSTANTS\n  OpAlphabet <- OpsQ\n  Bases <- %s\n  MaxOps = %d\n' % ('BasesQ' if quick else 'BasesT', 2)
                      + ''.join(f'INVARIANT {i}\n' for i in ENC_INV), workers=16, timeout=3000)
    chk.add_tlc(res)
    lays = res.emits
    if quick:
        lays = rng.sample(lays, min(len(lays), 9000))
    elif len(lays) > 150000:
        lays = rng.sample(lays, 150000)
    chk.notes.setdefault('instances', []).append({'tag': 'encode', 'layouts_enumerated': len(res.emits), 'layouts_replayed': len(lays)})
    for i, e in enumerate(lays):
        e['variant'] = i
    outs = runner.pmap(enc_eval, lays)
    for e, r in zip(lays, outs):
        chk.traces += 2
        if len(e['l']['ops']) >= 1:
            chk.nontriv(('enc', str(e['l'])))
        if r is not None:
            chk.violation(r['mismatch'] + f' | layout {e["l"]}', r['case'], e['b'], r['mismatch'], {'kind': 'encode'})
    e = lays[len(lays) // 2]
    isa, stmt, kinds = isagen.encode_isa(e['l'], e['variant'])
    chk.sample({'instance': 'encode', 'layout': e['l'], 'statement': stmt, 'operand_types': kinds, 'bytes': e['b']})
    # (c) widths up to 64 bits and arbitrary 64-bit values, validated on bit strings
    widepart.run_wide(chk, 4000 if quick else 80000)
    # (d) every instruction of the repository programs: recorded parts and bytes against the layout
    widepart.run_corpus_pack(chk)
    chk.exhaustive = not quick
