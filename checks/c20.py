"""C20 Generated editor extensions are well-formed and mirror the ISA vocabulary."""
import io
import json
import os
import plistlib
import re
import shutil
import tempfile
import xml.etree.ElementTree as ET
import zipfile

import yaml

from harness import runner, tlc, isagen, corpus

INV = ['VocabularyClassified', 'Emit']
PLACEHOLDER = re.compile(r'##[A-Z_]+##')


def vocab_isa(v):
    ms = v['M']
    # how the definition spells a mnemonic or macro name carries no meaning (they are case-insensitive), and its description is free text
    odd = len(json.dumps(v['M']) + json.dumps(v['Q']) + json.dumps(v['R'])) % 2 == 1
    up = (lambda w: w.upper() if len(w) % 2 else w.capitalize()) if odd else (lambda w: w)
    cfg = {'description': 'Load & Store <8-bit> "generated" vocabulary' if odd else 'generated vocabulary',
           'general': {'address_size': 16, 'registers': list(v['R']), 'identifier': {'name': 'genisa', 'version': '1.0.0', 'extension': 'gen'}},
           'operand_sets': {'imm': {'operand_values': {'i': {'type': 'numeric', 'argument': {'size': 8, 'byte_align': True}}}}},
           'instructions': {(up(m) if i else m): {'bytecode': {'value': i + 1, 'size': 8}} for i, m in enumerate(ms)}}
    # operand sets of the usual kinds (the vocabulary of the generated packages must not depend on them)
    if v['R']:
        cfg['operand_sets']['regs'] = {'operand_values': {f'r_{r}': {'type': 'register', 'register': r, 'bytecode': {'value': i, 'size': 4}}
                                                          for i, r in enumerate(v['R'])}}
        cfg['operand_sets']['inds'] = {'operand_values': {f'i_{r}': {'type': 'indirect_register', 'register': r, 'bytecode': {'value': i, 'size': 4}}
                                                          for i, r in enumerate(v['R'])}}
    cfg['operand_sets']['flags'] = {'operand_values': {'fl': {'type': 'enumeration', 'bytecode': {'size': 4, 'value_dict': {'kzero': 1, 'kcarry': 2}},
                                                              'argument': {'size': 4, 'byte_align': False, 'value_dict': {'kzero': 0, 'kcarry': 0}}}}}
    cfg['operand_sets']['ports'] = {'operand_values': {'pn': {'type': 'numeric_enumeration', 'bytecode': {'size': 4, 'value_dict': {3: 1, 4: 2}}}}}
    first = cfg['instructions'][ms[0]]
    first['operands'] = {'count': 1, 'operand_sets': {'list': ['regs' if v['R'] else 'imm']}}
    first['variants'] = [{'bytecode': {'value': 200, 'size': 8}, 'operands': {'count': 1, 'operand_sets': {'list': ['flags']}}},
                         {'bytecode': {'value': 201, 'size': 8}, 'operands': {'count': 1, 'operand_sets': {'list': ['ports']}}},
                         {'bytecode': {'value': 202, 'size': 8}}]
    if v['Q']:
        cfg['macros'] = {up(q): [{'instructions': [ms[0]]}] for q in v['Q']}
    if v['P']:
        cfg['predefined'] = {'constants': [{'name': p, 'value': i} for i, p in enumerate(v['P'])]}
    return isagen.dump(cfg)


def find_named(node, name, key='name'):
    out = []
    if isinstance(node, dict):
        if node.get(key) == name:
            out.append(node)
        for x in node.values():
            out.extend(find_named(x, name, key))
    elif isinstance(node, list):
        for x in node:
            out.extend(find_named(x, name, key))
    return out


def vscode_patterns(root):
    """-> ({class: regex text}, problems)"""
    problems = []
    pats = {}
    ext = os.path.join(root, 'extensions', 'genisa')
    expected = ['package.json', 'snippets.json', 'language-configuration.json', 'genisa-assembly.tmTheme', os.path.join('syntaxes', 'tmGrammar.json')]
    for f in expected:
        p = os.path.join(ext, f)
        if not os.path.isfile(p):
            problems.append(f'vscode: missing file {f}')
            continue
        text = open(p, encoding='utf-8').read()
        if PLACEHOLDER.search(text):
            problems.append(f'vscode: {f} contains an unsubstituted placeholder {PLACEHOLDER.search(text).group(0)}')
        try:
            if f.endswith('.json'):
                json.loads(text)
            else:
                plistlib.loads(text.encode('utf-8'))
        except Exception as e:
            problems.append(f'vscode: {f} is not well-formed: {type(e).__name__} {str(e)[:80]}')
    gpath = os.path.join(ext, 'syntaxes', 'tmGrammar.json')
    if os.path.isfile(gpath):
        g = json.load(open(gpath))
        rep = g.get('repository', {})
        if 'instructions' in rep:
            pats['instruction'] = rep['instructions'].get('begin')
            pats['_rules'] = pats.get('_rules', []) + [('instruction', rep['instructions'].get('begin'), rep['instructions'].get('end'))]
        if 'macros' in rep:
            pats['macro'] = rep['macros'].get('begin')
            pats['_rules'] = pats.get('_rules', []) + [('macro', rep['macros'].get('begin'), rep['macros'].get('end'))]
        if 'registers' in rep:
            pats['register'] = rep['registers'].get('match')
        def flat_tm(node, depth=0):
            out = []
            if depth > 6:
                return out
            for pt in node.get('patterns', []):
                if 'include' in pt and pt['include'].startswith('#'):
                    r = rep.get(pt['include'][1:], {})
                    if 'match' in r:
                        out.append((r['match'], r.get('name', '')))
                    elif 'begin' in r:
                        out.append((r['begin'], r.get('name', '') or 'begin'))
                    out.extend(flat_tm(r, depth + 1))
                elif 'match' in pt:
                    out.append((pt['match'], pt.get('name', '')))
            return out
        if 'instructions' in rep:
            pats['_operand_rules'] = flat_tm(rep['instructions'])
        d = find_named(rep.get('directives', {}), 'meta.directive')
        t = find_named(rep.get('directives', {}), 'storage.type')
        pats['directive'] = [x.get('begin') for x in d] + [x.get('match') for x in t]
        pp = find_named(rep.get('directives', {}), 'keyword.control.preprocessor')
        pats['preproc'] = [x.get('match') for x in pp]
    return pats, problems


def sublime_patterns(root):
    problems = []
    pats = {}
    pk = os.path.join(root, 'genisa.sublime-package')
    if not os.path.isfile(pk):
        return pats, ['sublime: package file missing']
    try:
        z = zipfile.ZipFile(pk)
        bad = z.testzip()
        if bad:
            problems.append(f'sublime: corrupt zip member {bad}')
        dups = sorted({n for n in z.namelist() if z.namelist().count(n) > 1})
        if dups:
            problems.append(f'sublime: the package holds {dups[0]} more than once')
    except Exception as e:
        return pats, [f'sublime: not a zip archive: {e}']
    names = z.namelist()
    if 'genisa.sublime-syntax' not in names:
        problems.append('sublime: syntax file missing from package')
    for n in names:
        data = z.read(n)
        try:
            text = data.decode('utf-8')
        except UnicodeDecodeError:
            problems.append(f'sublime: {n} is not utf-8')
            continue
        if PLACEHOLDER.search(text):
            problems.append(f'sublime: {n} contains an unsubstituted placeholder {PLACEHOLDER.search(text).group(0)}')
        try:
            if n.endswith('.sublime-syntax'):
                body = text.split('---', 1)[1] if text.startswith('%YAML') else text
                syn = yaml.safe_load(body)
                ctx = syn['contexts']
                ins = find_named(ctx.get('instructions', []), 'variable.function.instruction', 'scope')
                mac = find_named(ctx.get('instructions', []), 'variable.function.macro', 'scope')
                ends = [r.get('match') for r in ctx.get('pop_instruction_end', []) if r.get('pop')]
                def flat_sub(items, depth=0):
                    out = []
                    if depth > 6:
                        return out
                    for it in items:
                        if 'include' in it:
                            out.extend(flat_sub(ctx.get(it['include'], []), depth + 1))
                        elif 'match' in it and not it.get('pop'):
                            out.append((it['match'], it.get('scope', '') or ('push' if 'push' in it else '')))
                    return out
                if ins and isinstance(ins[0].get('push'), list):
                    pats['_operand_rules'] = flat_sub(ins[0]['push'])
                if ins:
                    pats['instruction'] = ins[0]['match']
                    pats['_rules'] = pats.get('_rules', []) + [('instruction', ins[0]['match'], ends)]
                if mac:
                    pats['macro'] = mac[0]['match']
                    pats['_rules'] = pats.get('_rules', []) + [('macro', mac[0]['match'], ends)]
                if 'registers' in ctx:
                    pats['register'] = ctx['registers'][0]['match']
                pats['directive'] = [ctx['compiler_directives'][0]['match'], ctx['data_types_directives'][0]['match']]
                pats['preproc'] = [r['match'] for r in ctx['preprocessor_directives'][0]['push'] if 'match' in r and 'include' in r['match']]
            elif n.endswith(('.sublime-color-scheme', '.sublime-keymap', '.sublime-macro')):
                json.loads(text)
            elif n.endswith('.tmPreferences'):
                plistlib.loads(data)
            elif n.endswith('.sublime-snippet'):
                ET.fromstring(text)
        except Exception as e:
            problems.append(f'sublime: {n} is not well-formed: {type(e).__name__} {str(e)[:80]}')
    return pats, problems


def compound_problems(pats, ops):
    """Lines with two operations, 'x y': the scope an operation opens (begin/end in the TextMate grammar, push/pop in the Sublime
    syntax) has to end where the next operation begins, so that y is classified as what it is. ops: {name: class}."""
    out = []
    rules = pats.get('_rules', [])
    for x, cx in ops.items():
        for y, cy in ops.items():
            line = f'  {x} {y}'
            ys = 2 + len(x) + 1
            opened = None
            for cls, begin, end in rules:
                try:
                    if begin and re.compile(begin).fullmatch(line, 2, 2 + len(x)):
                        opened = (cls, end)
                        break
                except re.error:
                    pass
            if opened is None:
                continue            # the single-word classification already reports this
            ends = opened[1] if isinstance(opened[1], list) else [opened[1]]
            closes = []
            for e_ in ends:
                try:
                    m = re.compile(e_).search(line, 2 + len(x)) if e_ else None
                except re.error:
                    m = None
                if m:
                    closes.append(m.start())
            if not closes or min(closes) > ys:
                out.append(f'on the line "{x} {y}" the {opened[0]} scope opened by "{x}" does not end before "{y}": "{y}" is not classified {cy}')
                continue
            got = [cls for cls, begin, _ in rules if begin and re.compile(begin).fullmatch(line, ys, len(line))]
            if got[:1] != [cy]:
                out.append(f'on the line "{x} {y}", "{y}" is classified {got or "as nothing"}, the vocabulary makes it {cy}')
    return out


def operand_scope_problems(pats, mnemonic, registers):
    """Inside the scope an instruction opens, the rules for operands compete: the leftmost match wins, ties go to the rule that
    comes first. A register written as an operand (in lower and in upper case) has to come out as a register even when it also
    looks like a number (AH, b1)."""
    out = []
    rules = pats.get('_operand_rules')
    if not rules:
        return out
    for r in registers:
        for spelled in (r, r.upper()):
            line = f'  {mnemonic} {spelled}, 1'
            start = 2 + len(mnemonic) + 1
            best = None
            for idx, (rx, scope) in enumerate(rules):
                try:
                    m = re.compile(rx).search(line, start)
                except re.error:
                    continue
                if m and m.end() > m.start() and (best is None or m.start() < best[0]):
                    best = (m.start(), idx, scope, m.group(0))
            if best is None or best[0] != start or 'register' not in best[2] or best[3] != spelled:
                out.append(f'the operand "{spelled}" of "{mnemonic} {spelled}, 1" is scoped {best[2] + " (" + best[3] + ")" if best else "by no rule"}, the vocabulary makes it a register')
    return out


def classify(pats, lead, w):
    """set of classes whose pattern matches exactly the probe in the line '  <lead><w> 1, 2'"""
    line = f'  {lead}{w} 1, 2'
    s, e = 2, 2 + len(lead) + len(w)
    got = set()
    for cls, ps in pats.items():
        if ps is None or cls.startswith('_'):
            continue
        for p in (ps if isinstance(ps, list) else [ps]):
            if p is None:
                continue
            try:
                rx = re.compile(p)
            except re.error as ex:
                got.add(f'BADREGEX {cls}: {ex}')
                continue
            start = s + (1 if (cls == 'preproc' and lead == '#') else 0)
            if cls in ('instruction', 'macro', 'register') and lead:
                continue     # ".ld" / "#ld" are not identifiers: only the directive classes are judged on them
            if rx.fullmatch(line, start, e):
                got.add(cls)
            elif cls in ('instruction', 'macro', 'register'):
                # a match that cuts the identifier between two word characters classifies a PART of an identifier outside the vocabulary
                wordch = lambda i: 0 <= i < len(line) and (line[i].isalnum() or line[i] == '_')
                for m in rx.finditer(line):
                    if m.end() <= s or m.start() >= e or m.end() == m.start():
                        continue
                    if (wordch(m.start() - 1) and wordch(m.start())) or (wordch(m.end() - 1) and wordch(m.end())):
                        got.add(f'{cls} (part of the identifier: "{m.group(0)}")')
                        break
    return got


def evaluate(v):
    d = tempfile.mkdtemp(prefix='vext_', dir=runner.SCRATCH_ROOT)
    try:
        isa = os.path.join(d, 'isa.yaml')
        open(isa, 'w').write(vocab_isa(v))
        # an earlier revision of the same language (one more mnemonic, macro and register) is generated into the same directories
        # first: regenerating after an edit of the definition must leave nothing of the old vocabulary behind
        old_isa = os.path.join(d, 'isa_old.yaml')
        open(old_isa, 'w').write(vocab_isa(dict(v, M=list(v['M']) + ['oldmn'], Q=list(v['Q']) + ['oldmac'], R=list(v['R']) + ['oldreg'])))
        def go():
            runner.import_repo()
            from bespokeasm.configgen.vscode import VSCodeConfigGenerator
            from bespokeasm.configgen.sublime import SublimeConfigGenerator
            os.makedirs(os.path.join(d, 'sub'))
            for f in (old_isa, isa):
                VSCodeConfigGenerator(f, 0, os.path.join(d, 'vs'), None, None, None).generate()
                SublimeConfigGenerator(f, 0, os.path.join(d, 'sub'), None, None, None).generate()
        st, msg, _ = runner.guarded(go, 30.0)
        if st != 'ok':
            return [f'generation failed: {st} {msg}']
        problems = []
        for target, (pats, probs) in (('vscode', vscode_patterns(os.path.join(d, 'vs'))), ('sublime', sublime_patterns(os.path.join(d, 'sub')))):
            problems.extend(probs)
            for lead, w, cls in list(v['probes']) + [('', 'oldmn', 'none'), ('', 'oldmac', 'none'), ('', 'oldreg', 'none')]:
                got = classify(pats, lead, w)
                bad = [g for g in got if g.startswith('BADREGEX')]
                if bad:
                    problems.append(f'{target}: {bad[0]}')
                    break
                want = set() if cls == 'none' else {cls}
                if got != want:
                    problems.append(f'{target}: "{lead}{w}" is classified {sorted(got) or "as nothing"}, the vocabulary makes it {cls}')
            ops = {m: 'instruction' for m in v['M']}
            ops.update({q: 'macro' for q in v['Q']})
            problems.extend(f'{target}: {x}' for x in compound_problems(pats, ops))
            problems.extend(f'{target}: {x}' for x in operand_scope_problems(pats, v['M'][0], v['R']))
        return problems
    finally:
        shutil.rmtree(d, ignore_errors=True)


def eval_corpus(path):
    """Real definitions: generation must succeed, files well-formed, no placeholder, every mnemonic / register / macro classified as such."""
    d = tempfile.mkdtemp(prefix='vextc_', dir=runner.SCRATCH_ROOT)
    try:
        holder = {}
        def go():
            runner.import_repo()
            from bespokeasm.configgen.vscode import VSCodeConfigGenerator
            from bespokeasm.configgen.sublime import SublimeConfigGenerator
            g = VSCodeConfigGenerator(path, 0, os.path.join(d, 'vs'), 'genisa', None, None)
            # the vocabulary is read from the definition file itself, as it is spelled there
            import yaml
            with open(path) as fh:
                raw = json.load(fh) if path.endswith('.json') else yaml.safe_load(fh)
            holder['M'] = sorted(str(k) for k in (raw.get('instructions') or {}))
            holder['Q'] = sorted(str(k) for k in (raw.get('macros') or {}))
            holder['R'] = sorted(g.model.registers)
            g.generate()
            os.makedirs(os.path.join(d, 'sub'))
            SublimeConfigGenerator(path, 0, os.path.join(d, 'sub'), 'genisa', None, None).generate()
        st, msg, _ = runner.guarded(go, 60.0)
        if st != 'ok':
            return [f'generation failed: {st} {msg}'], 0
        problems = []
        n = 0
        for target, (pats, probs) in (('vscode', vscode_patterns(os.path.join(d, 'vs'))), ('sublime', sublime_patterns(os.path.join(d, 'sub')))):
            problems.extend(probs)
            for cls, words in (('instruction', holder['M']), ('macro', holder['Q']), ('register', holder['R'])):
                for w in words:
                    n += 1
                    got = classify(pats, '', w)
                    if cls not in got:
                        problems.append(f'{target}: {cls} "{w}" is classified {sorted(got) or "as nothing"}')
        return problems[:10], n
    finally:
        shutil.rmtree(d, ignore_errors=True)


def run(chk):
    chk.rule = ('spec/Ext.tla: TLC enumerates every well-formed vocabulary over pools of mnemonics {ld, ldx, ld.b, mov}, macros '
                '{push2, ldm}, registers {a, ab, sp} and predefined names {PCON, buf} (1920 vocabularies, with and without macros / '
                'registers / predefined names) and gives Class(probe) for 75 probes: the pool words, case variants, proper '
                'prefixes and extensions, names with "." "_" digits, directive keywords with and without their leading "." / "#". '
                'For each vocabulary both editor packages are generated by the real generators; every produced file is parsed '
                '(JSON, YAML, property list, XML, zip), searched for ##PLACEHOLDER## residue, and the syntax patterns of each '
                'class are applied with Python re to every probe in a statement context: a probe is classified k iff the k '
                'pattern matches exactly the probe (a match that cuts an identifier between two word characters counts as classifying a part of it); on lines with two operations the scope opened by the first (begin/end, push/pop) has to end where the second begins. The same is done for the repository definitions (every real mnemonic, macro '
                'and register must be classified as such). Non-trivial = distinct vocabulary.')
    chk.assumptions = ['the templates use only regular expression constructs Python re shares with Oniguruma ((?i), \\b, look-around, alternation)',
                       'well-formedness is decided by the standard parsers, not by TLC', 'a word is classified k iff pattern k matches exactly the word (full match inside the line)']
    res = tlc.run_tlc('MC_Ext', 'SPECIFICATION Spec\nCONSTANTS\n  MnPool <- MnP\n  MacroPool <- MaP\n  RegPool <- ReP\n  PrePool <- PrP\n  Probes <- AllProbes\n'
                      + ''.join(f'INVARIANT {i}\n' for i in INV), workers=16)
    chk.add_tlc(res)
    vocs = res.emits
    if chk.tier == 'quick':
        vocs = vocs[::3]
    outs = runner.pmap(evaluate, vocs)
    for v, probs in zip(vocs, outs):
        chk.traces += 2
        chk.nontriv(str((v['M'], v['Q'], v['R'], v['P'])))
        for p in probs[:3]:
            chk.violation(f'{p} | mnemonics {v["M"]} macros {v["Q"]} registers {v["R"]} predefined {v["P"]}',
                          {'config': vocab_isa(v), 'files': {}, 'config_name': 'isa.yaml'}, None, p,
                          {'kind': 'placeholder' if 'placeholder' in p else 'classify'})
    v = vocs[len(vocs) // 2]
    chk.sample({'mnemonics': v['M'], 'macros': v['Q'], 'registers': v['R'], 'predefined': v['P'], 'probes': v['probes'][:12]})
    chk.notes['vocabularies'] = {'enumerated': len(res.emits), 'replayed': len(vocs), 'probes_each': len(v['probes'])}
    cfgs = [c for c in corpus.corpus_configs() if os.path.basename(c) not in ('test_bad_registers_in_configuratin.yaml', 'test_min_required_version_config.yaml')]
    outs = runner.pmap(eval_corpus, cfgs)
    words = 0
    for c, (probs, n) in zip(cfgs, outs):
        chk.traces += 2
        words += n
        for p in probs[:3]:
            chk.violation(f'{os.path.relpath(c, corpus.REPO)}: {p}', {'path': c}, None, p, {'kind': 'corpus'})
    chk.notes['repository_definitions'] = {'count': len(cfgs), 'vocabulary_words_checked': words}
    chk.exhaustive = chk.tier != 'quick'
