"""C17 Including a file is equivalent to assembling its text in place."""
from harness import asmcheck
from harness import runner, tlc
from checks import tracepart
from harness.carrier import carrier_yaml

MARK = {'main': 0x11, 'A': 0xA1, 'B': 0xB2, 'C': 0xC3}


def include_cfg(files, extra):
    fs = ', '.join(f'"{f}"' for f in files)
    ds = ', '.join(f'"{d}"' for d in extra)
    return ('SPECIFICATION Spec\nCONSTANTS\n  Files = {' + fs + '}\n  ExtraDirs = {' + ds + '}\n'
            'INVARIANT OrderIndependent\nINVARIANT TwiceNeverAccepted\nINVARIANT AcceptedMeansAllUnique\nINVARIANT Emit\n')


def include_case(sc):
    files = {}
    def text(node):
        # every second include line carries a comment with an apostrophe and a double quote (comments carry no meaning)
        lines = [f'#include "{n}.asm"' + ('  ; don\'t "move" this\n' if (j + len(node)) % 2 else '\n') for j, n in enumerate(sc['incs'][node])]
        if node == 'main' and sc.get('skipmain') and lines:
            lines[-1] = '#ifdef SYMBOL_THAT_IS_NOT_DEFINED\n' + lines[-1] + '#endif\n'
        if sc.get('backedge'):
            if node == 'main' and lines:       # an include guard around the main file's includes
                lines = ['#ifndef MAIN_INCLUDES_DONE\n', '#define MAIN_INCLUDES_DONE\n'] + lines + ['#endif\n']
            if node == 'A':
                lines = lines + ['#include "main.asm"\n']
        return f'.byte {MARK[node]}\n' + ''.join(lines)
    files['d0/main.asm'] = text('main')
    if not sc.get('backedge') and len(str(sc['incs'])) % 2 == 0:
        # preprocessor symbols named like the words of the include lines: a file name is not program text, nothing is substituted in it
        files['d0/main.asm'] = '#define asm 7\n#define main 8\n#define include 9\n' + files['d0/main.asm']
    for f, dirs in sc['place'].items():
        for d in dirs:
            files[f'{d}/{f}.asm'] = text(f)
    for d in ('d0', 'd1', 'd2'):
        files.setdefault(f'{d}/.keep', '')
    incl = list(sc['passed'])
    if sc['dup'] and incl:
        incl.append(f'{incl[0]}/../{incl[0]}')
    return {'config': carrier_yaml(), 'files': files, 'main': 'd0/main.asm', 'include_dirs': incl, 'timeout': 10.0}


def eval_include(sc):
    case = include_case(sc)
    obs = runner.run_case(case)
    exp_ok = sc['st'] == 'ok'
    if obs['status'] == 'timeout':
        return {'mismatch': 'did not terminate', 'case': case, 'obs': obs['status']}
    if (obs['status'] == 'ok') != exp_ok:
        return {'mismatch': f'specification {sc["st"]}, implementation {obs["status"]} ({(obs.get("msg") or "")[:120]})', 'case': case,
                'obs': obs['status']}
    if exp_ok:
        exp_img = bytes(MARK[n] for n in sc['out'])
        if obs['image'] != exp_img:
            return {'mismatch': f'image: specification {exp_img.hex()} implementation {obs["image"].hex()}', 'case': case, 'obs': obs['image'].hex()}
    return None


def eval_include_cli(sc):
    """The same configuration through the command line, typed from inside the project directory with relative paths, and with the
    main file's own directory also named by -I (it is searched anyway, so naming it changes nothing)."""
    case = dict(include_case(sc), relative_paths=True)
    if 'd1' in sc['passed'] and len(str(sc['incs'])) % 3 != 0:
        # a search directory whose name contains the character that separates the entries of a PATH-like list: -I names ONE directory
        case['files'] = {(k.replace('d1/', 'd1:v2/', 1) if k.startswith('d1/') else k): v for k, v in case['files'].items()}
        case['include_dirs'] = [d.replace('d1', 'd1:v2') for d in case['include_dirs']]
    if len(str(sc)) % 2:
        case['include_dirs'] = list(case['include_dirs']) + ['d0']
    else:
        case['cli_cwd'] = 'd0'         # typed inside the main file's own directory: the main file is a bare name
    obs = runner.run_cli(case)
    exp_ok = sc['st'] == 'ok'
    if (obs['status'] == 'ok') != exp_ok:
        return {'mismatch': f'command line with relative paths (from the project directory with -I d0, or from inside d0 with a bare file name): specification {sc["st"]}, implementation {obs["status"]} ({(obs.get("msg") or "")[-140:]})', 'case': case,
                'obs': obs['status']}
    if exp_ok and obs['image'] != bytes(MARK[n] for n in sc['out']):
        return {'mismatch': f'command line with relative paths (from the project directory with -I d0, or from inside d0 with a bare file name): image {obs["image"].hex()}', 'case': case, 'obs': obs['image'].hex()}
    return None


def include_part(chk):
    if chk.tier == 'quick':
        configs = [(['A', 'B'], ['d1'], None)]
    else:
        configs = [(['A', 'B'], ['d1', 'd2'], None)]
    for files, extra, _ in configs:
        res = tlc.run_tlc('Include', include_cfg(files, extra), workers=1)
        chk.add_tlc(res)
        scs = res.emits
        chk.notes.setdefault('instances', []).append({'tag': f'include-graph files={files} extra_dirs={extra}', 'scenarios': len(scs),
                                                      'mode': 'exhaustive'})
        results = runner.pmap(eval_include, scs)
        for sc, r in zip(scs, results):
            chk.traces += 1
            chk.nontriv(('inc', str(sc['place']), str(sc['incs']), str(sc['passed']), sc['dup']))
            if r is not None:
                chk.violation(f'include graph {sc["incs"]} copies {sc["place"]} -I {sc["passed"]} dup={sc["dup"]}: {r["mismatch"]}',
                              r['case'], {'status': sc['st'], 'order': sc['out']}, r['obs'])
        # a sample through the command line, typed from inside the project directory
        import random
        pick = random.Random(chk.seed + 17).sample(scs, min(len(scs), 160 if chk.tier == 'quick' else 1500))
        # every configuration in which an included file includes the main file again goes through the command line too (how the main
        # file's path is spelled must not decide whether the second inclusion is noticed)
        # (the configurations that are rejected ONLY because of that second inclusion: their twin without the back edge is accepted)
        twin_ok = {(str(s['incs']), str(s['place']), str(s['passed']), s['dup']) for s in scs if not s.get('backedge') and not s.get('skipmain') and s['st'] == 'ok'}
        cyc = [s for s in scs if s.get('backedge') and s['st'] == 'twice' and (str(s['incs']), str(s['place']), str(s['passed']), s['dup']) in twin_ok]
        chk.notes['backedge_only_cycles_through_cli'] = min(len(cyc), 400 if chk.tier == 'quick' else 5000)
        pick += cyc[:400 if chk.tier == 'quick' else 5000]
        for sc, r in zip(pick, runner.pmap(eval_include_cli, pick)):
            chk.traces += 1
            if r is not None:
                chk.violation(f'include graph {sc["incs"]} copies {sc["place"]} -I {sc["passed"]} dup={sc["dup"]}: {r["mismatch"]}',
                              r['case'], {'status': sc['st'], 'order': sc['out']}, r['obs'], {'kind': 'include-cli'})
        for sc in [s for s in scs if s['st'] == 'twice'][:1] + [s for s in scs if s['st'] == 'ok' and len(s['out']) > 2][:1]:
            chk.sample({'instance': 'include-graph', 'includes': sc['incs'], 'copies': sc['place'], 'passed': sc['passed'],
                        'dup_spelling': sc['dup'], 'expected': sc['st'], 'order': sc['out']})

WHAT = ['status', 'image', 'addr']
KINDS = {'incb'}
BASE = {'addr_bits': 16, 'origin': 0, 'page_size': 4, 'pre_zones_op': 'ZonesA', 'pre_zones': [('z1', 8, 11), ('z2', 10, 13)]}


def instances(tier):
    if tier == 'quick':
        yield 'core5', dict(BASE, max_len=5, win_end=14, emit_inv='EmitInc'), 'AlphaC17core', None
        yield 'mute6', dict(BASE, max_len=6, win_end=14, emit_inv='EmitInc'), 'AlphaC17mute', None
        yield 'len4', dict(BASE, max_len=4, win_end=14, emit_inv='EmitInc'), 'AlphaC17', None
        yield 'sim8', dict(BASE, max_len=8, win_end=14, emit_inv='EmitInc'), 'AlphaC17', 'num=8000'
    else:
        yield 'core6', dict(BASE, max_len=6, win_end=14, emit_inv='EmitInc'), 'AlphaC17core', None
        yield 'mute8', dict(BASE, max_len=8, win_end=14, emit_inv='EmitInc'), 'AlphaC17mute', None
        yield 'len5', dict(BASE, max_len=5, win_end=14, emit_inv='EmitInc'), 'AlphaC17', None
        yield 'sim8', dict(BASE, max_len=8, win_end=14, emit_inv='EmitInc'), 'AlphaC17', 'num=60000'
        yield 'sim11', dict(BASE, max_len=11, win_end=14, emit_inv='EmitInc'), 'AlphaC17', 'num=60000'


def run(chk):
    chk.rule = ('TLC enumerates every program up to MaxLen lines over AlphaC17 with include brackets (nested to depth 2): '
                'global / file / local labels and references on both sides of the boundary, zone switch and origin, '
                'mute / unmute, #define / #ifdef. On the specification TLC checks IncludeIsPaste (where literal pasting is '
                'expressible - global names only, no zone selection - Run(split) = Run(pasted) on status, image and global '
                'label values) and ResolvesOnlyToVisible. Every scenario is rendered to real files (main.asm + incK.asm), '
                'assembled, and compared on accept/reject, per-line address and image. Non-trivial = contains an include.')
    chk.rule += (' Code -> specification: seeded random multi-file programs (nested conditionals, definitions, muting, zones, includes, all label '
                 'classes) and the repository programs are assembled with the reading-phase hooks on; every line event must be '
                 'AsmCore!ReadStep (Trace_Read.tla): compiled flag, mute flag, current zone, condition stack depth and branch state, and '
                 'label scope identity; corrupted traces must be rejected.')
    chk.assumptions = ['conditional chains do not span an include boundary (left open)',
                       'include-twice / missing / ambiguous-name rejections: spec/Include.tla enumerates every include graph over 2 library files x every placement of copies in the main directory and the -I directories x duplicate -I spellings; TLC checks OrderIndependent (lookup loop = order-free statement for every iteration order of the directory set) and each configuration is replayed with real directories']
    chk.exhaustive = True
    asmcheck.run_instances(chk, instances(chk.tier), WHAT, KINDS)
    include_part(chk)
    tracepart.run_read_traces(chk)
