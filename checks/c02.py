"""C02 Address assignment and label values are consistent across both passes."""
from harness import asmcheck
from checks import tracepart

WHAT = ['status', 'image', 'addr', 'bytes']
KINDS = {'lab', 'org', 'orgz', 'align', 'zone', 'zuntil', 'fill', 'i2', 'i3', 'brl', 'mbr'}
BASE = {'addr_bits': 16, 'origin': 0, 'page_size': 8, 'pre_zones_op': 'ZonesA', 'pre_zones': [('z1', 8, 11), ('z2', 10, 13)]}


def instances(tier):
    if tier == 'quick':
        yield 'core4', dict(BASE, max_len=4), 'AlphaC02core', None
        yield 'wide3-origin3', dict(BASE, max_len=3, origin=3), 'AlphaC02wide', None
        yield 'inc5', dict(BASE, max_len=5, emit_inv='EmitInc'), 'AlphaC02inc', None
        yield 'top3', dict(BASE, addr_bits=5, max_len=3), 'AlphaC02top', None
        yield 'redefined-global-origin6', dict(BASE, addr_bits=5, max_len=2, origin=6, pre_zones_op='ZonesB', pre_zones=[('GLOBAL', 4, 15), ('z1', 6, 9), ('z2', 14, 17)]), 'AlphaC02core', None
        yield 'files3', dict(BASE, max_len=15, win_end=24, blocks_op='BlocksScope', emit_inv='EmitInc'), 'MCNoAlphabet', None
        yield 'pdata3', dict(BASE, max_len=3, pre_data_op='DataTwo', pre_data=[('pd1', 20, 85, 2), ('pd2', 14, 51, 1)]), 'AlphaC02pdata', None
        yield 'rel4', dict(BASE, max_len=4), 'AlphaC02rel', None
        yield 'top-sim6', dict(BASE, addr_bits=5, max_len=6), 'AlphaC02top', 'num=1500'
        yield 'wide-sim8', dict(BASE, max_len=8), 'AlphaC02wide', 'num=1500'
    else:
        yield 'core5', dict(BASE, max_len=5), 'AlphaC02core', None
        yield 'wide4', dict(BASE, max_len=4), 'AlphaC02wide', None
        yield 'wide3-origin3', dict(BASE, max_len=3, origin=3), 'AlphaC02wide', None
        yield 'inc6', dict(BASE, max_len=6, emit_inv='EmitInc'), 'AlphaC02inc', None
        yield 'top5', dict(BASE, addr_bits=5, max_len=5), 'AlphaC02top', None
        yield 'redefined-global-origin6', dict(BASE, addr_bits=5, max_len=4, origin=6, pre_zones_op='ZonesB', pre_zones=[('GLOBAL', 4, 15), ('z1', 6, 9), ('z2', 14, 17)]), 'AlphaC02core', None
        yield 'files4', dict(BASE, max_len=20, win_end=30, blocks_op='BlocksScope', emit_inv='EmitInc'), 'MCNoAlphabet', None
        yield 'pdata4', dict(BASE, max_len=4, pre_data_op='DataTwo', pre_data=[('pd1', 20, 85, 2), ('pd2', 14, 51, 1)]), 'AlphaC02pdata', None
        yield 'rel5', dict(BASE, max_len=5), 'AlphaC02rel', None
        yield 'rel-sim9', dict(BASE, max_len=9), 'AlphaC02rel', 'num=20000'
        yield 'wide-sim10', dict(BASE, max_len=10), 'AlphaC02wide', 'num=30000'


def run(chk):
    chk.rule = ('TLC enumerates every abstract program up to MaxLen lines over the C02 alphabets of spec/MC_Asm.tla '
                '(labels, instructions of 1-3 bytes with forward/backward references, data, fills, zerountil, origins, '
                'zone switches, alignment, mute, excluded blocks; AlphaC02rel: relative branches whose field is target - own address, alone and as the middle step of a macro, so the bytes expose the address pass 2 works with) and checks Contiguity, ReservedEqualsEmitted, '
                'LabelIsNextAddress, AlignIsLeastMultiple on the specification; each terminal scenario is rendered to '
                'source, assembled by the real code and compared on status, per-line listing address, per-line bytes and '
                'image. Non-trivial = contains a label, origin, alignment, zone or fill line; distinct by program text.')
    chk.rule += (' Code -> specification: the repository example programs (real ISAs, up to 36 KB images) and seeded random rich '
                 'carrier programs are assembled with the verification hooks on; every recorded pass-1 / pass-2 event and the image read '
                 'back from the .bin must be a behaviour of spec/Trace_Asm.tla (address = zone cursor | origin | AlignUp, size, cursor '
                 'after, zone bounds, label value, stable sort order, bytes = reserved size, overlap check, window onto the unmuted '
                 'bytes); corrupted traces must be rejected (self-test).')
    chk.assumptions = ['labels immediately followed by an origin/alignment/zone directive are not generated (value left open)',
                       'carrier ISA (harness/carrier.py) makes label values observable as operand bytes',
                       'listing parser (harness/render.parse_listing) is trusted',
                       'simulation instances are samples; the exhaustive instances are complete for their alphabet and length']
    chk.exhaustive = True
    asmcheck.run_instances(chk, instances(chk.tier), WHAT, KINDS)
    tracepart.run_traces(chk, 'C02', windows=False)
