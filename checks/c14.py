"""C14 Assembly always terminates and fails closed."""
import json
import os
import random
import tempfile

from harness import asmcheck, runner, tlc, corpus
from harness.carrier import carrier_yaml
from harness.render import render_prog, isa_for

SENTINEL = b'SENTINEL-OLD-IMAGE'
BASE = {'addr_bits': 16, 'origin': 0, 'page_size': 4, 'pre_zones_op': 'ZonesA', 'pre_zones': [('z1', 8, 11), ('z2', 10, 13)],
        'pre_data_op': 'DataA', 'pre_data': [('pd1', 6, 85, 2)]}
FORMATS = [None, 'listing', 'minhex', 'hex', 'intel_hex']
FATAL = [('unresolvable label', 'ld8 undefined_label_xyz'), ('unresolvable label in a zero-length fill', '.fill 0, undefined_label_xyz'),
         ('unresolvable label in a fill count', '.fill undefined_label_xyz, 0'), ('unresolvable label in an expression', 'ld16 undefined_label_xyz + 1'), ('unresolvable label in data', '.byte undefined_label_xyz'),
         ('unknown instruction', 'zzqx 1'), ('statement no variant accepts', 'mov 5'), ('statement whose only operand is a disallowed combination', 'mvx b'),
         ('statement with a trailing comma (an empty operand slot)', 'ld8 5,'), ('statement with a leading comma', 'ld8 ,5'), ('statement with a doubled comma', 'mov ,,a'),
         ('branch beyond the configured maximum offset (a value its field cannot hold)', 'bre 230'),
         ('statement with an unpaired character quote', "ld8 '!"), ('statement with an unpaired quote before a comment', "ld8 'Z ; upper bound"),
         ('value its field cannot hold', 'ld8 300'), ('value its field cannot hold (negative)', 'ld8 0-129'),
         ('value its field cannot hold (16 bit)', 'ld16 65536'), ('value its field cannot hold (4 bit)', 'ld4 16'),
         ('value its field cannot hold (4 bit, negative)', 'ld4 0-9'), ('value its field cannot hold (4 bit, negative)', 'ld4 0-15'),
         ('page-local target in another page (a value its field cannot hold)', 'jp4 200'), ('page-local target in another page, one page up', 'jp4 250'),
         ('data list with a dropped comma (a statement nothing accepts)', '.byte 1 2'), ('data list with a doubled token', '.2byte 7 7'),
         ('constant whose expression ends in an operator', 'KBAD = 4 +'), ('fill whose count ends in an operator', '.fill 2 +, 1'),
         ('origin whose expression ends in an operator', '.org 40 +'), ('zero whose count is two numbers', '.zero 2 2'),
         ('operand code below its configured minimum of 0', 'nb3 0-1'), ('operand code below its configured minimum of 0 (as an expression)', 'nb3 2-5'),
         ('operand code above its configured maximum', 'nb3 8'),
         ('value its field cannot hold (12 bit)', 'ld12 4096'), ('value its field cannot hold (12 bit, negative)', 'ld12 0-2049')]
# unresolvable references that need more than one file: names of file scope and local scope are not visible across an #include
FATAL_FILES = [
    ("the includer's file label used by the included file", {'main.asm': '_fil1:\nnop\n#include "inc1.asm"\n', 'inc1.asm': 'ld16 _fil1\n'}),
    ("the includer's file constant used by the included file", {'main.asm': '_KF = 5\nnop\n#include "inc1.asm"\n', 'inc1.asm': 'ld8 _KF\n'}),
    ("the included file's file label used by the includer", {'main.asm': 'nop\n#include "inc1.asm"\nld16 _fil1\n', 'inc1.asm': '_fil1:\nnop\n'}),
    ("a sibling file's file label", {'main.asm': '#include "inc1.asm"\n#include "inc2.asm"\n', 'inc1.asm': '_fil1:\nnop\n', 'inc2.asm': 'ld16 _fil1\n'}),
    ("the includer's local label used by the included file", {'main.asm': 'glob1:\n.loc1:\nnop\n#include "inc1.asm"\n', 'inc1.asm': 'ld16 .loc1\n'}),
    ("the includer's file label used two includes down", {'main.asm': '_fil1:\nnop\n#include "inc1.asm"\n', 'inc1.asm': 'nop\n#include "inc2.asm"\n', 'inc2.asm': 'glob2:\nld16 _fil1\n'}),
    ("a local label of another region", {'main.asm': 'glob1:\n.loc1:\nnop\nglob2:\nld16 .loc1\n'}),
    ("a muted unresolvable reference", {'main.asm': '#mute\nld16 nowhere_defined\n#unmute\nnop\n'}),
]
FATAL_FILES_CONTROL = [
    {'main.asm': 'glob1:\nnop\n#include "inc1.asm"\nld16 glob2\n', 'inc1.asm': 'glob2:\nld16 glob1\n_fil1:\nld16 _fil1\n'},
    {'main.asm': '_fil1:\nnop\n#include "inc1.asm"\nld16 _fil1\n', 'inc1.asm': '_fil1:\nld16 _fil1\n'},
]
FATAL_OK_CONTROL = ['nb3 0', 'nb3 7', 'bre 100', 'mvx a', "ld8 '!'", 'ld4 15', 'ld4 0-8', 'ld12 4095', 'ld12 0-2048', 'ld8 255', 'ld8 0-128']


def observe(case, cli=False):
    """Run and return the outside observation sequence + details."""
    case = dict(case, sentinel=SENTINEL)
    obs = runner.run_cli(case) if cli else runner.run_case(case)
    ev = ['start']
    if obs['file_state'] == 'written':
        ev.append('wrote')
    elif obs['file_state'] == 'absent':
        ev.append('wrote')      # the old image was removed: the file was altered
    ev.append({'ok': 'exit_ok', 'err': 'exit_err', 'timeout': 'hang'}[obs['status']])
    return ev, obs


def _obs_inproc(case):
    ev, obs = observe(case, False)
    return ev, obs['status'], (obs.get('msg') or '')[:200], obs['image'].hex() if obs.get('image') is not None else None


def _obs_cli(case):
    ev, obs = observe(case, True)
    return ev, obs['status'], (obs.get('msg') or '')[:200], obs['image'].hex() if obs.get('image') is not None else None


def tlc_accept(chk, traces):
    """Batch acceptance of observation traces by Trace_Outcome.tla. Returns set of accepted 0-based indices."""
    acc = set()
    B = 4000
    for off in range(0, len(traces), B):
        part = traces[off:off + B]
        fd, path = tempfile.mkstemp(prefix='vtrace_', suffix='.json', dir=runner.SCRATCH_ROOT)
        with os.fdopen(fd, 'w') as f:
            json.dump(part, f)
        try:
            res = tlc.run_tlc('Trace_Outcome', 'SPECIFICATION TraceSpec\nCONSTANTS MaxWork = 0\nINVARIANT FailClosed\n'
                              'INVARIANT SuccessMeansWritten\nINVARIANT Accepted\n', workers=1, env={'TRACE_FILE': path})
        finally:
            os.unlink(path)
        chk.add_tlc(res)
        for a in res.tags.get('ACC', []):
            acc.add(off + a['t'] - 1)
    return acc


# ---------------------------------------------------------------- text corruption

def corrupt(text, rng):
    lines = text.split('\n')
    if not lines:
        return text
    op = rng.choice(['droptok', 'duptok', 'garble', 'dropline', 'dupline', 'swap', 'trunc', 'zerolen', 'junk'])
    i = rng.randrange(len(lines))
    toks = lines[i].split(' ')
    if op == 'droptok' and toks:
        del toks[rng.randrange(len(toks))]
        lines[i] = ' '.join(toks)
    elif op == 'duptok' and toks:
        j = rng.randrange(len(toks))
        toks.insert(j, toks[j])
        lines[i] = ' '.join(toks)
    elif op == 'garble' and lines[i]:
        j = rng.randrange(len(lines[i]))
        lines[i] = lines[i][:j] + rng.choice('!@#$%^&*()[]{}<>,.;:\'"\\|/?~`+-=_ 09azAZ') + lines[i][j + 1:]
    elif op == 'dropline':
        del lines[i]
    elif op == 'dupline':
        lines.insert(i, lines[i])
    elif op == 'swap' and len(lines) > 1:
        j = (i + 1) % len(lines)
        lines[i], lines[j] = lines[j], lines[i]
    elif op == 'trunc' and lines[i]:
        lines[i] = lines[i][:rng.randrange(len(lines[i]))]
    elif op == 'zerolen':
        lines.insert(i, rng.choice(['.fill 0, 0', '.zero 0', '.zerountil 0', '.fill 0, 255', '.byte ""', '.align 1']))
    else:
        lines.insert(i, rng.choice(['"', "'", '(', ')))', ':', '.org', '.fill', '.fill 1', '#if', '#elif', '#define', '.byte',
                                    '.byte ,', '.align 0', '.zerountil', '= 5', 'x =', '.org -1', '.fill -1, 0', '.memzone',
                                    '#include', '#include "main.asm"', '.2byte 1 2', 'ld8', 'ld8 ,', 'ld8 1,2', 'nop nop nop',
                                    'ld8 (', 'ld8 1/0', 'ld8 1%0', '.fill 1/0, 1', 'ld8 1 <<', 'ld8 BYTE9(1)', 'ld8 LSB(', '.cstr',
                                    '.cstr "abc', '.asciiz 5', '#create_memzone', '#create_memzone q 5 1', '#require "x"',
                                    '#mute', '#unmute', '#emit', '#endif', '#else']))
    return '\n'.join(lines)


# ---------------------------------------------------------------- long tokens (regular-expression backtracking)

LONG1 = 'buffer_end_address_of_the_frame_store_number_1'
LONG2 = 'offset_of_the_first_visible_scan_line_in_bytes'
DIGITS = '1234567890123456789012345678'
LONG_PROGRAM = f'''{LONG1} = 4
{LONG2} = 2
.org {LONG1}
start_of_the_program_area_number_one_of_this_file:
.fill {LONG1}, {LONG2}
.fill {LONG1}-{LONG2}, 0
.fill 1, {DIGITS}-{DIGITS}
.zero {LONG1}
.byte {LONG1}, {LONG2}
.2byte start_of_the_program_area_number_one_of_this_file
ld8 {LONG1}
ld16 start_of_the_program_area_number_one_of_this_file + {LONG1}
mov a
#if {LONG1} == 4
nop
#elif {LONG1} >= {LONG2}
hlt
#endif
.zerountil 60
'''


def long_token_cases(rng, n_garble):
    """The long-identifier program and its single-token corruptions: every token dropped / doubled, every line truncated after
    each token, junk appended to every line, and seeded garbles."""
    lines = LONG_PROGRAM.split('\n')
    out = [('control', LONG_PROGRAM)]
    for i, ln in enumerate(lines):
        toks = ln.split(' ')
        for j in range(len(toks)):
            out.append((f'drop token {j} of line {i + 1}', '\n'.join(lines[:i] + [' '.join(toks[:j] + toks[j + 1:])] + lines[i + 1:])))
            out.append((f'double token {j} of line {i + 1}', '\n'.join(lines[:i] + [' '.join(toks[:j] + [toks[j]] + toks[j:])] + lines[i + 1:])))
            if j:
                out.append((f'truncate line {i + 1} after token {j - 1}', '\n'.join(lines[:i] + [' '.join(toks[:j])] + lines[i + 1:])))
                out.append((f'drop the comma of token {j - 1} of line {i + 1}', '\n'.join(lines[:i] + [' '.join(toks[:j - 1] + [toks[j - 1].rstrip(',')] + toks[j:])] + lines[i + 1:])))
                # a run of 44 blanks (column-aligned source), alone and in front of a character no statement can contain
                wide = ' '.join(toks[:j]) + ' ' * 44
                out.append((f'widen the blank in front of token {j} of line {i + 1} to 44 blanks', '\n'.join(lines[:i] + [wide + ' '.join(toks[j:])] + lines[i + 1:])))
                for junk in ('@', '?', '"', '`'):
                    out.append((f'44 blanks and {junk!r} in front of token {j} of line {i + 1}', '\n'.join(lines[:i] + [wide + junk + ' ' + ' '.join(toks[j:])] + lines[i + 1:])))
                    out.append((f'44 blanks and {junk!r} behind token {j} of line {i + 1}', '\n'.join(lines[:i] + [' '.join(toks[:j + 1]) + ' ' * 44 + junk + ''.join(' ' + t for t in toks[j + 1:])] + lines[i + 1:])))
        if ln:
            for junk in ('"', ']', '=', '?', ' "x', ',', ' ,', ':'):
                out.append((f'append {junk!r} to line {i + 1}', '\n'.join(lines[:i] + [ln + junk] + lines[i + 1:])))
    for _ in range(n_garble):
        t = LONG_PROGRAM
        for _k in range(rng.choice([1, 1, 2])):
            t = corrupt(t, rng)
        out.append(('seeded corruption', t))
    return out


def corpus_small_cases():
    """(config text, {files}, main) for small repository programs."""
    out = []
    repo = corpus.REPO
    picks = [('examples/ben-eater-sap1/eater-sap1-isa.yaml', 'examples/ben-eater-sap1/counting-loop.sap1'),
             ('examples/ben-eater-sap1/eater-sap1-isa.yaml', 'examples/ben-eater-sap1/multiplication.sap1'),
             ('examples/kenbak-1/kenbak-1-isa.yaml', 'examples/kenbak-1/led-chaser.kb1'),
             ('examples/kenbak-1/kenbak-1-isa.yaml', 'examples/kenbak-1/led-bouncer.kb1'),
             ('test/config_files/test_compilation_control.yaml', 'test/test_code/test_compilation_control.asm'),
             ('test/config_files/test_memory_zones.yaml', 'test/test_code/test_memory_zones.asm')]
    for cfg, src in picks:
        try:
            out.append({'config': open(os.path.join(repo, cfg)).read(), 'config_name': 'isa.yaml',
                        'files': {'main.asm': open(os.path.join(repo, src)).read()}, 'main': 'main.asm', 'timeout': 20.0,
                        'origin_src': src})
        except OSError:
            pass
    return out


def run(chk):
    rng = random.Random(chk.seed * 7919 + 14)
    quick = chk.tier == 'quick'
    chk.rule = ('(a) Outcome.tla: TLC checks FailClosed, SuccessMeansWritten, NoWriteBeforeChecks, Progress and Termination '
                '(weak fairness) on the outcome automaton. (b) TLC enumerates programs over AlphaC16/AlphaC02wide (zero-length '
                'fills / zerountil / zero in every position, muted regions, excluded blocks, unresolved and oversized operands); '
                'each is run by the real code with a pre-existing sentinel image, without and with each pretty-print format (a third of them also with a tab for every blank); '
                'the outside observation (file altered?, exit class, watchdog) is a trace that Trace_Outcome.tla must accept, '
                'and accept/reject must equal the specification. A seeded sample goes through the CLI in subprocesses (real '
                'exit status). (c) seeded corruptions (dropped / duplicated / garbled tokens and lines, swapped lines, '
                'truncations, zero-length directives, junk lines) of rendered and repository programs: every observation trace '
                'must be accepted. (d) fatal injections (unresolvable label, unknown instruction, statement no variant accepts, '
                'value its field cannot hold; references to file-scope and local names across #include boundaries in multi-file programs) into accepted programs must never end in exit_ok. (e) a program whose identifiers are 46 characters long and whose numbers have 28 digits, with every single token dropped / doubled, every line truncated after each token, every comma dropped, junk appended to every line, every blank widened to a run of 44 blanks alone and next to a character no statement can contain, plus seeded corruptions: every run must terminate (a pattern matcher whose work doubles per character does not) and be accepted by Trace_Outcome.tla. '
                'Non-trivial = distinct (program text, format) whose run exercised a rejection or a zero-length line.')
    chk.assumptions = ['termination is observed with a 10 s watchdog (programs assemble in milliseconds)',
                       'no oracle on whether corrupted text is accepted - only the implications of the statement',
                       'printing to an unwritable pretty-print path is out of scope']
    # (a)
    res = tlc.run_tlc('Outcome', 'SPECIFICATION Spec\nCONSTANTS MaxWork = 3\nINVARIANT FailClosed\nINVARIANT SuccessMeansWritten\n'
                      'INVARIANT NoWriteBeforeChecks\nPROPERTY Progress\nPROPERTY Termination\n', workers=4)
    chk.add_tlc(res)
    # (b)
    nodata = {k: v for k, v in BASE.items() if k not in ('pre_data_op', 'pre_data')}
    insts = [('zero3', dict(BASE, max_len=3), 'AlphaC16', None), ('zero2-no-predefined-data', dict(nodata, max_len=2), 'AlphaC16', None),
             ('window-only-fill', dict(nodata, max_len=2, win_start=40, win_end=47, fill=255), 'AlphaC16', None), ('wide-sim7', dict(BASE, max_len=7), 'AlphaC02wide', 'num=800' if quick else 'num=8000')]
    if not quick:
        insts.append(('zero4', dict(BASE, max_len=4), 'AlphaC16', None))
    rendered_ok = []
    for tag, params, alpha, sim in insts:
        params = dict(params, tag=tag)
        r = asmcheck.enumerate_scenarios('MC_Asm', params, alphabet=alpha, simulate=sim, depth=(params['max_len'] + 3) if sim else None,
                                         seed=chk.seed + 3 if sim else None)
        chk.add_tlc(r)
        scs = [s for s in r.emits if not s.get('open')]
        cases, meta = [], []
        for s in scs:
            fmt = FORMATS[rng.randrange(len(FORMATS))] if quick else None
            fmts = [fmt] if quick else FORMATS
            for f in fmts:
                case, _ = asmcheck.build_case(s, params, pretty=f)
                cases.append(case)
                meta.append((s, f))
            if len(cases) % 3 == 0:
                # the same program with a tab for every blank between tokens: same outcome
                case, _ = asmcheck.build_case(s, params, pretty=fmts[0])
                case['files'] = {k: v.replace(' ', '\t') for k, v in case['files'].items()}
                cases.append(case)
                meta.append((s, fmts[0]))
            if s['status'] == 'ok' and len(rendered_ok) < 400 and len(s['prog']) >= 2:
                rendered_ok.append((case, params))
        obs = runner.pmap(_obs_inproc, cases)
        traces = [o[0] for o in obs]
        acc = tlc_accept(chk, traces)
        for idx, ((s, f), o, case) in enumerate(zip(meta, obs, cases)):
            chk.traces += 1
            if s['status'] != 'ok' or any(l[0] in ('fill', 'zero', 'zuntil') and (l[2] == 0 or l[0] == 'zuntil') for l in s['prog']):
                chk.nontriv((tag, f) + tuple(tuple(l) for l in s['prog']))
            if idx not in acc:
                chk.violation(f'observation {o[0]} is not a behaviour of Outcome.tla (format {f}) | program: ' +
                              ' / '.join(asmcheck._fmt(l) for l in s['prog']), case, {'accepted_by': 'Trace_Outcome'}, {'events': o[0], 'msg': o[2]},
                              {'kind': 'trace', 'events': '>'.join(o[0])})
            elif (o[1] == 'ok') != (s['status'] == 'ok'):
                chk.violation(f'specification {s["status"]} ({s["why"]}) but implementation {o[1]} ({o[2][:100]}) | program: ' +
                              ' / '.join(asmcheck._fmt(l) for l in s['prog']), case, {'status': s['status'], 'why': s['why']}, {'status': o[1], 'msg': o[2]})
        chk.notes.setdefault('instances', []).append({'tag': tag, 'scenarios': len(scs), 'runs': len(cases)})
        if tag == 'zero3':
            chk.sample({'instance': tag, 'program': [asmcheck._fmt(l) for l in scs[len(scs) // 3]['prog']], 'observation': traces[len(traces) // 3]})
            # CLI subprocess sample
            k = 120 if quick else 600
            pick = rng.sample(range(len(cases)), min(k, len(cases)))
            cobs = runner.pmap(_obs_cli, [cases[i] for i in pick])
            cacc = tlc_accept(chk, [o[0] for o in cobs])
            for j, i in enumerate(pick):
                chk.traces += 1
                s, f = meta[i]
                if j not in cacc:
                    chk.violation(f'CLI observation {cobs[j][0]} is not a behaviour of Outcome.tla (format {f}) | program: ' +
                                  ' / '.join(asmcheck._fmt(l) for l in s['prog']), cases[i], None, {'events': cobs[j][0], 'msg': cobs[j][2]},
                                  {'kind': 'trace', 'events': '>'.join(cobs[j][0])})
                elif (cobs[j][1] == 'ok') != (s['status'] == 'ok'):
                    chk.violation(f'CLI: specification {s["status"]} but exit class {cobs[j][1]} | program: ' +
                                  ' / '.join(asmcheck._fmt(l) for l in s['prog']), cases[i], {'status': s['status']}, {'status': cobs[j][1], 'msg': cobs[j][2]})
            chk.notes['cli_runs'] = len(pick)
    # (c) corruptions
    seeds_cases = [c for c, _ in rendered_ok[:200]] + corpus_small_cases()
    n_corr = 1500 if quick else 12000
    ccases = []
    for i in range(n_corr):
        base = seeds_cases[i % len(seeds_cases)]
        fname = rng.choice(sorted(base['files']))
        text = base['files'][fname]
        for _ in range(rng.choice([1, 1, 2, 3])):
            text = corrupt(text, rng)
        c = dict(base, files=dict(base['files'], **{fname: text}), pretty=rng.choice(FORMATS))
        c.pop('origin_src', None)
        ccases.append(c)
    cobs = runner.pmap(_obs_inproc, ccases)
    acc = tlc_accept(chk, [o[0] for o in cobs])
    outcomes = {}
    for i, (c, o) in enumerate(zip(ccases, cobs)):
        chk.traces += 1
        outcomes[o[1]] = outcomes.get(o[1], 0) + 1
        chk.nontriv(('corr', json.dumps(c['files'], sort_keys=True), c['pretty']))
        if i not in acc:
            chk.violation(f'corrupted program: observation {o[0]} is not a behaviour of Outcome.tla (format {c["pretty"]}): {o[2][:120]}',
                          c, None, {'events': o[0], 'msg': o[2]}, {'kind': 'trace', 'events': '>'.join(o[0])})
    chk.notes['corruption_outcomes'] = outcomes
    chk.sample({'instance': 'corruption', 'files': ccases[0]['files'], 'observation': cobs[0][0]})
    # (d) fatal injections
    fcases, fmeta = [], []
    for (case, params) in rendered_ok[:60 if quick else 400]:
        for what, line in FATAL:
            for where in ('top', 'bottom'):
                text = case['files']['main.asm']
                text2 = (line + '\n' + text) if where == 'top' else (text + line + '\n')
                fcases.append(dict(case, files=dict(case['files'], **{'main.asm': text2}), pretty=None))
                fmeta.append((what, line, where))
    # controls: boundary values that DO fit must not be rejected (guards the injections against vacuity)
    for (case, params) in rendered_ok[:10]:
        for line in FATAL_OK_CONTROL:
            fcases.append(dict(case, files=dict(case['files'], **{'main.asm': case['files']['main.asm'] + line + '\n'}), pretty=None))
            fmeta.append(('CONTROL', line, 'bottom'))
    for what, files in FATAL_FILES:
        for fmt in FORMATS:
            fcases.append({'config': carrier_yaml(), 'files': files, 'pretty': fmt, 'timeout': 10.0})
            fmeta.append((what, 'see files', 'files'))
    for files in FATAL_FILES_CONTROL:
        fcases.append({'config': carrier_yaml(), 'files': files, 'pretty': None, 'timeout': 10.0})
        fmeta.append(('CONTROL', 'multi-file program with only visible references', 'files'))
    fobs = runner.pmap(_obs_inproc, fcases)
    acc = tlc_accept(chk, [o[0] for o in fobs])
    for i, (c, o, m) in enumerate(zip(fcases, fobs, fmeta)):
        if m[0] == 'CONTROL':
            chk.traces += 1
            if o[1] != 'ok':
                chk.violation(f'boundary value that fits its field is rejected: "{m[1]}": {o[2][:120]}', c, {'status': 'ok'}, {'status': o[1], 'msg': o[2]},
                              {'kind': 'control', 'line': m[1]})
            continue
        chk.traces += 1
        chk.nontriv(('fatal', c['files']['main.asm']))
        if i not in acc:
            chk.violation(f'fatal injection ({m[0]}): observation {o[0]} is not a behaviour of Outcome.tla', c, None, {'events': o[0], 'msg': o[2]},
                          {'kind': 'trace', 'events': '>'.join(o[0])})
        elif o[1] == 'ok':
            chk.violation(f'success reported for a program containing {m[0]}: "{m[1]}" at the {m[2]}', c, {'status': 'err'}, {'status': 'ok', 'image': o[3]},
                          {'kind': 'fatal', 'what': m[0]})
    chk.notes['fatal_injections'] = len(fcases)
    # the same injections through the command line front end: the process exit status is what a caller sees
    cand = [i for i, m in enumerate(fmeta) if m[0] != 'CONTROL' and m[2] != 'files']
    pick = rng.sample(cand, min(len(cand), 200 if quick else 1500))
    # every kind of injection at least once
    seen = set()
    for i in cand:
        if fmeta[i][1] not in seen:
            seen.add(fmeta[i][1])
            pick.append(i)
    pick = sorted(set(pick))
    pobs = runner.pmap(_obs_cli, [fcases[i] for i in pick])
    pacc = tlc_accept(chk, [o[0] for o in pobs])
    for j, i in enumerate(pick):
        chk.traces += 1
        o, m = pobs[j], fmeta[i]
        if j not in pacc:
            chk.violation(f'fatal injection ({m[0]}) through the command line: observation {o[0]} is not a behaviour of Outcome.tla', fcases[i], None,
                          {'events': o[0], 'msg': o[2]}, {'kind': 'trace', 'events': '>'.join(o[0])})
        elif o[1] == 'ok':
            chk.violation(f'the command line reports success (exit status 0) for a program containing {m[0]}: "{m[1]}" at the {m[2]}', fcases[i], {'status': 'err'},
                          {'status': 'ok', 'image': o[3]}, {'kind': 'fatal-cli', 'what': m[0]})
    chk.notes['fatal_injections_cli'] = len(pick)
    # (e) long identifiers and digit strings: the same corruptions must still terminate (pattern matching must not blow up)
    lt = long_token_cases(rng, 300 if quick else 3000)
    lcases = [{'config': carrier_yaml(), 'files': {'main.asm': t}, 'pretty': None, 'timeout': 10.0} for _w, t in lt]
    lobs = runner.pmap(_obs_inproc, lcases, chunksize=4)
    acc = tlc_accept(chk, [o[0] for o in lobs])
    for i, ((w, t), c, o) in enumerate(zip(lt, lcases, lobs)):
        chk.traces += 1
        chk.nontriv(('long', t))
        if w == 'control' and o[1] != 'ok':
            chk.violation(f'the long-identifier control program is rejected: {o[2][:120]}', c, {'status': 'ok'}, {'status': o[1], 'msg': o[2]}, {'kind': 'control-long'})
        elif i not in acc:
            chk.violation(f'long-token program ({w}): observation {o[0]} is not a behaviour of Outcome.tla: {o[2][:100]}', c, None,
                          {'events': o[0], 'msg': o[2]}, {'kind': 'trace', 'events': '>'.join(o[0])})
    chk.notes['long_token_cases'] = len(lt)
    chk.exhaustive = False
