"""C08 Conditional assembly selects exactly the lines of the taken branches."""
from harness import asmcheck
from checks import tracepart

WHAT = ['status', 'image']
KINDS = {'ifdef', 'ifndef', 'if', 'ifnz', 'elif', 'else'}
BASE = {'addr_bits': 16, 'origin': 0, 'page_size': 4, 'init_defs_op': 'DefsA', 'init_defs': [('S2', 1)]}


def instances(tier):
    if tier == 'quick':
        yield 'core5', dict(BASE, max_len=5, win_end=12), 'AlphaC08core', None
        yield 'nest6', dict(BASE, max_len=6, win_end=12), 'AlphaC08nest', None
        yield 'inc6', dict(BASE, max_len=6, win_end=12, emit_inv='EmitInc'), 'AlphaC08inc', None
        yield 'wide3', dict(BASE, max_len=3, win_end=12), 'AlphaC08wide', None
        yield 'wide-sim8', dict(BASE, max_len=8, win_end=12), 'AlphaC08wide', 'num=4000'
    else:
        yield 'core6', dict(BASE, max_len=6, win_end=12), 'AlphaC08core', None
        yield 'nest8', dict(BASE, max_len=8, win_end=12), 'AlphaC08nest', None
        yield 'inc7', dict(BASE, max_len=7, win_end=12, emit_inv='EmitInc'), 'AlphaC08inc', None
        yield 'wide4', dict(BASE, max_len=4, win_end=12), 'AlphaC08wide', None
        yield 'wide-sim10', dict(BASE, max_len=10, win_end=12), 'AlphaC08wide', 'num=40000'


def run(chk):
    chk.rule = ('TLC enumerates every directive sequence up to MaxLen over AlphaC08core (#ifdef/#ifndef/#if ==/#elif over two '
                'symbols, #else, #endif, #define with two values, two marker bytes) and AlphaC08wide (adds bare #if, a '
                'valueless define, labels, constants, #create_memzone + .memzone, #mute/#unmute, symbol used as operand, '
                'include brackets), S2 predefined by the ISA; TLC checks ActiveEqualsSelected (operational stack = declarative '
                'reading of the statement). The real code is compared on accept/reject (dangling directives, redefinition) '
                'and on the image: which marker bytes, label / constant / symbol values and zone placements are present. '
                'Non-trivial = contains a conditional opener, #elif or #else; distinct by program text.')
    chk.rule += (' Code -> specification: seeded random multi-file programs (nested conditionals, definitions, muting, zones, includes, all label '
                 'classes) and the repository programs are assembled with the reading-phase hooks on; every line event must be '
                 'AsmCore!ReadStep (Trace_Read.tla): compiled flag, mute flag, current zone, condition stack depth and branch state, and '
                 'label scope identity; corrupted traces must be rejected.')
    chk.assumptions = ['an evaluated condition over a valueless symbol, and a bare #if over an undefined symbol, are not generated; S == v over an undefined symbol is false (documentation and code agree)',
                       'lines inside unselected branches are well-formed', 'unterminated blocks at end of file are not generated']
    chk.exhaustive = True
    asmcheck.run_instances(chk, instances(chk.tier), WHAT, KINDS)
    tracepart.run_read_traces(chk)
