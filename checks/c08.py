"""C08 Conditional assembly selects exactly the lines of the taken branches."""
from harness import asmcheck
from checks import tracepart

WHAT = ['status', 'image']
KINDS = {'ifdef', 'ifndef', 'if', 'ifnz', 'elif', 'else'}
BASE = {'addr_bits': 16, 'origin': 0, 'page_size': 4, 'init_defs_op': 'DefsA', 'init_defs': [('S2', 1)]}


def instances(tier):
    if tier == 'quick':
        yield 'core5', dict(BASE, max_len=5, win_end=12), 'AlphaC08core', None
        yield 'nest6', dict(BASE, max_len=6, win_end=12), 'AlphaC08nest', None
        yield 'inc6', dict(BASE, max_len=6, win_end=12, emit_inv='EmitInc'), 'AlphaC08inc', None
        # command-line symbols whose names merely begin with the name of a symbol the ISA definition predefines (SYM2)
        yield 'core4-command-line-symbols', dict(BASE, max_len=4, win_end=12, defines=['SYM2X=5', 'SYM2_WIDE', 'XSYM2=1']), 'AlphaC08core', None
        yield 'alias3', dict(BASE, max_len=15, win_end=12, blocks_op='BlocksAlias'), 'MCNoAlphabet', None
        yield 'core4-tabs', dict(BASE, max_len=4, win_end=12, directive_tabs=True), 'AlphaC08core', None
        yield 'nest5-tabs', dict(BASE, max_len=5, win_end=12, directive_tabs=True), 'AlphaC08nest', None
        yield 'wide3', dict(BASE, max_len=3, win_end=12), 'AlphaC08wide', None
        yield 'wide-sim8', dict(BASE, max_len=8, win_end=12), 'AlphaC08wide', 'num=4000'
    else:
        yield 'core6', dict(BASE, max_len=6, win_end=12), 'AlphaC08core', None
        yield 'nest8', dict(BASE, max_len=8, win_end=12), 'AlphaC08nest', None
        yield 'inc7', dict(BASE, max_len=7, win_end=12, emit_inv='EmitInc'), 'AlphaC08inc', None
        yield 'core5-command-line-symbols', dict(BASE, max_len=5, win_end=12, defines=['SYM2X=5', 'SYM2_WIDE', 'XSYM2=1']), 'AlphaC08core', None
        yield 'alias4', dict(BASE, max_len=20, win_end=16, blocks_op='BlocksAlias'), 'MCNoAlphabet', None
        yield 'core5-tabs', dict(BASE, max_len=5, win_end=12, directive_tabs=True), 'AlphaC08core', None
        yield 'nest7-tabs', dict(BASE, max_len=7, win_end=12, directive_tabs=True), 'AlphaC08nest', None
        yield 'wide4', dict(BASE, max_len=4, win_end=12), 'AlphaC08wide', None
        yield 'wide-sim10', dict(BASE, max_len=10, win_end=12), 'AlphaC08wide', 'num=40000'


COND_INV = ['SignFormAgrees', 'OperatorsPartition', 'QuotesCarryNoMeaning', 'TruncTowardZero', 'Emit']


def _num(v, style):
    if v < 0:
        return f'(0-{_num(-v, style)})'
    return {0: str(v), 1: hex(v), 2: '$%x' % v, 3: '%' + bin(v)[2:] if v < 256 else str(v), 4: '%XH' % v}[style]


# blanks in front of / behind the comparison operator, per style: their number and kind carry no meaning
GAPS = {0: (' ', ' '), 1: ('   ', '  '), 2: ('\t', ' '), 3: ('  ', ' '), 4: (' ', '\t\t')}


def cond_text(s, style):
    """One scenario of Cond.tla as source text: the left-hand side through #define'd symbols, the right-hand side written in
    decimal / 0x / $ / binary, quoted or not; a text scenario compares two words."""
    g1, g2 = GAPS[style]
    if s.get('lw'):
        rhs = f'"{s["rw"]}"' if s['q'] else s['rw']
        return f'#define LNUM {s["lw"]}\n#if LNUM{g1}{s["op"]}{g2}{rhs}\n.byte 1\n#else\n.byte 2\n#endif\n'
    lhs = 'LNUM' if s['b'] == 1 else f'LNUM/{_num(s["b"], style % 2)}'
    if s['bare']:
        cond = f'#if {lhs}'
    else:
        rhs = _num(s['c'], style) if s['d'] == 1 else f'{_num(s["c"], style)}/{_num(s["d"], 0)}'
        if s['q']:
            rhs = f'"{rhs}"'
        cond = f'#if {lhs}{g1}{s["op"]}{g2}{rhs}'
    return f'#define LNUM {_num(s["a"], 0)}\n{cond}\n.byte 1\n#else\n.byte 2\n#endif\n'


def cond_eval(e):
    from harness import runner
    from harness.carrier import carrier_yaml
    s = e['s']
    for style in range(5):
        text = cond_text(s, style)
        case = {'config': carrier_yaml(), 'files': {'main.asm': text}}
        obs = runner.run_case(case)
        want = bytes([1 if e['holds'] else 2])
        if obs['status'] != 'ok':
            return {'m': f'condition rejected: {(obs.get("msg") or "")[:120]}', 'case': case, 'text': text}
        if obs['image'] != want:
            return {'m': f'condition {text.splitlines()[1]!r} after {text.splitlines()[0]!r}: the integers are {e["l"]} and {e["r"]}' + (f' (texts {s["lw"]} / {s["rw"]})' if s.get('lw') else '') + f', so it {"holds" if e["holds"] else "does not hold"}; '
                         f'the implementation selected the {"#if" if obs["image"] == b"\x01" else "#else"} branch', 'case': case, 'text': text}
    return None


def run_cond(chk):
    from harness import runner, tlc
    res = tlc.run_tlc('MC_Cond', 'SPECIFICATION Spec\nCONSTANTS\n  Scenarios <- %s\n' % ('ScQuick' if chk.tier == 'quick' else 'ScThorough')
                      + ''.join(f'INVARIANT {i}\n' for i in COND_INV), workers=16, timeout=3000)
    chk.add_tlc(res)
    outs = runner.pmap(cond_eval, res.emits)
    for e, r in zip(res.emits, outs):
        chk.traces += 4
        chk.nontriv(('cond', str(e['s'])))
        if r is not None:
            chk.violation(r['m'], r['case'], e['holds'], r['m'], {'kind': 'cond'})
    chk.notes['condition_scenarios'] = len(res.emits)
    e = res.emits[len(res.emits) // 3]
    chk.sample({'instance': 'cond', 'text': cond_text(e['s'], 1), 'holds': e['holds']})


def run(chk):
    chk.rule = ('TLC enumerates every directive sequence up to MaxLen over AlphaC08core (#ifdef/#ifndef/#if ==/#elif over two '
                'symbols, #else, #endif, #define with two values, two marker bytes) and AlphaC08wide (adds bare #if, a '
                'valueless define, labels, constants, #create_memzone + .memzone, #mute/#unmute, symbol used as operand, '
                'include brackets), S2 predefined by the ISA; TLC checks ActiveEqualsSelected (operational stack = declarative '
                'reading of the statement). The real code is compared on accept/reject (dangling directives, redefinition) '
                'and on the image: which marker bytes, label / constant / symbol values and zone placements are present. '
                'Non-trivial = contains a conditional opener, #elif or #else; distinct by program text.')
    chk.rule += (' Code -> specification: seeded random multi-file programs (nested conditionals, definitions, muting, zones, includes, all label '
                 'classes) and the repository programs are assembled with the reading-phase hooks on; every line event must be '
                 'AsmCore!ReadStep (Trace_Read.tla): compiled flag, mute flag, current zone, condition stack depth and branch state, and '
                 'label scope identity; corrupted traces must be rejected.')
    chk.rule += (' Meaning of a condition (spec/Cond.tla): scenarios L op R with L = a/b through a #define, R = c/d, six operators, R quoted or not, '
                 'numbers spelled decimal / 0x / $ / binary / with an H suffix (AH, 10H, 68H), and the bare form; integers are compared (each side truncated toward zero), quotes, '
                 'spelling and the blanks or tabs around the operator carry no meaning; text scenarios (a symbol whose value is a word against a word, == and !=) compare the texts; TLC checks the sign-of-difference formulation against the direct one; the real code must select the branch Holds says.')
    chk.assumptions = ['an evaluated condition over a valueless symbol, and a bare #if over an undefined symbol, are not generated; S == v over an undefined symbol is false (documentation and code agree)',
                       'lines inside unselected branches are well-formed', 'unterminated blocks at end of file are not generated']
    chk.exhaustive = True
    asmcheck.run_instances(chk, instances(chk.tier), WHAT, KINDS)
    tracepart.run_read_traces(chk)
    run_cond(chk)
