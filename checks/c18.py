"""C18 Output is invariant under meaning-preserving changes of surface syntax."""
import random

from harness import runner, tlc
from harness.carrier import carrier_yaml

INV = ['RoundTrip', 'Emit']
BL = {'s1': ' ', 's3': '   ', 'tab': '\t', 'ts': '\t '}
COMMA = {'s1': ', ', 's3': ' ,   ', 'tab': ',\t', 'ts': ' ,\t'}
COM = {'plain': '; a comment', 'quotes': '; it\'s a "quoted" comment ; with more'}


def cased(word, case):
    if case == 'up':
        return word.upper()
    if case == 'mi':
        return ''.join(ch.upper() if i % 2 == 0 else ch.lower() for i, ch in enumerate(word))
    return word


def spell(items):
    out = []
    for t, a, b in items:
        b = b.strip('"')
        if t == 'LAB':
            out.append({'g1': 'glob1:', 'l1': '.loc1:'}.get(a, 'glob2:'))
        elif t == 'MN':
            out.append(cased(a, b))
        elif t == 'REG':
            out.append(cased(a, b))
        elif t == 'NUM':
            out.append(b)
        elif t == 'CHR':
            out.append("'" + chr(int(b)) + "'")
        elif t == 'STR':
            out.append('"a\\"b"')
        elif t == 'REF':
            out.append({'g1': 'glob1', 'l1': '.loc1'}.get(a, 'glob2'))
        elif t == 'DIR':
            out.append(a)
        elif t == 'BL':
            out.append(BL[a])
        elif t == 'COMMA':
            out.append(COMMA[a])
        elif t == 'NL':
            out.append('\n')
        elif t == 'COM':
            out.append(COM[a])
    return ''.join(out)


def evaluate(e):
    text = spell(e['items'])
    case = {'config': carrier_yaml(), 'files': {'main.asm': text}}
    obs = runner.run_case(case)
    want = bytes(e['bytes'])
    if obs['status'] != 'ok':
        return {'m': f'rendering rejected: {(obs.get("msg") or "")[:140]}', 'case': case, 'text': text}
    if obs['image'] != want:
        return {'m': f'rendering assembles to {obs["image"].hex()}, the statement list to {want.hex()}', 'case': case, 'text': text}
    return None


def run(chk):
    quick = chk.tier == 'quick'
    rng = random.Random(chk.seed + 18)
    chk.rule = ('spec/Lexer.tla: TLC enumerates statement lists (label, nop, ld8 n, ld8 with a character literal a or A, ld16 label, mov a|b, .byte v,w, .cstr with an escaped quote) x a style per '
                'statement (mnemonic and register case lower/UPPER/MiXeD; blank between tokens 1 space / 3 spaces / tab / tab+space, '
                'also around commas and as indentation; no comment / plain comment / comment containing quotes and semicolons; own '
                'line / joined to the previous statement (label in front of its statement, consecutive instructions on one line) / '
                'blank line before) and checks RoundTrip: Tokenize(Render(P, c)) = P. The harness spells each rendering and the real '
                'assembler must produce Bytes(P), the same for every rendering of P. Instances: all 108 styles for single '
                'statements and pairs (sampled in the quick tier), a 10-style covering subset for three statements. '
                'Non-trivial = distinct rendered text.')
    chk.assumptions = ['only the rewrites the statement lists are applied: case of mnemonics and registers (not labels, not directives), blanks between tokens, blank lines, comments, label placement, joining of instructions (not directives)']
    plan = ([('all-styles-1', 'StmtsA', 'StylesAll', 1), ('half-styles-2', 'StmtsA', 'StylesHalf', 2), ('core-styles-3', 'StmtsB', 'StylesCore', 3)] if quick
            else [('all-styles-2', 'StmtsA', 'StylesAll', 2), ('core-styles-3', 'StmtsA', 'StylesCore', 3), ('core-styles-4', 'StmtsB', 'StylesCore', 4)])
    for tag, stmts, styles, ml in plan:
        res = tlc.run_tlc('MC_Lexer', f'SPECIFICATION Spec\nCONSTANTS\n  Stmts <- {stmts}\n  Styles <- {styles}\n  MaxLen = {ml}\n'
                          + ''.join(f'INVARIANT {i}\n' for i in INV), workers=16, timeout=3000)
        chk.add_tlc(res)
        emits = res.emits
        cap = 12000 if quick else 150000
        if len(emits) > cap:
            emits = rng.sample(emits, cap)
        chk.notes.setdefault('instances', []).append({'tag': tag, 'enumerated': len(res.emits), 'replayed': len(emits)})
        outs = runner.pmap(evaluate, emits)
        for e, r in zip(emits, outs):
            chk.traces += 1
            chk.nontriv(spell(e['items']))
            if r is not None:
                chk.violation(f'{r["m"]} | text: {r["text"]!r}', r['case'], e['bytes'], r['m'], {'kind': 'render'})
        e = emits[len(emits) // 2]
        chk.sample({'instance': tag, 'text': spell(e['items']), 'bytes': e['bytes']})
    chk.exhaustive = not quick
