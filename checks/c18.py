"""C18 Output is invariant under meaning-preserving changes of surface syntax."""
import json
import random

from harness import runner, tlc
from harness.carrier import carrier_yaml

INV = ['RoundTrip', 'Emit']
BL = {'s1': ' ', 's3': '   ', 'tab': '\t', 'ts': '\t '}
COMMA = {'s1': ', ', 's3': ' ,   ', 'tab': ',\t', 'ts': ' ,\t'}
COM = {'plain': '; a comment', 'quotes': '; it\'s a "quoted" comment ; with more'}


def cased(word, case):
    if case == 'up':
        return word.upper()
    if case == 'mi':
        return ''.join(ch.upper() if i % 2 == 0 else ch.lower() for i, ch in enumerate(word))
    return word


def spell(items):
    out = []
    for t, a, b in items:
        b = b.strip('"')
        if t == 'LAB':
            out.append({'g1': 'glob1:', 'l1': '.loc1:'}.get(a, 'glob2:'))
        elif t == 'MN':
            out.append(cased(a, b))
        elif t == 'REG':
            out.append(cased(a, b))
        elif t == 'NUM':
            out.append(b)
        elif t == 'CHR':
            out.append("'" + chr(int(b)) + "'")
        elif t == 'STR':
            out.append('"a\\"b"')
        elif t == 'STRL':
            out.append('"glob1: b"')
        elif t == 'STRT':
            out.append('"a\tb"')
        elif t == 'REF':
            out.append({'g1': 'glob1', 'l1': '.loc1'}.get(a, 'glob2'))
        elif t == 'DIR':
            out.append(a)
        elif t in ('SYM', 'OP', 'WORD'):
            out.append(a)
        elif t in ('PLUS', 'LBR', 'RBR'):
            out.append({'PLUS': '+', 'LBR': '[', 'RBR': ']'}[t])
        elif t == 'DSYM':
            out.append(f'DSYM{b}')
        elif t == 'BL':
            out.append(BL[a])
        elif t == 'COMMA':
            out.append(COMMA[a])
        elif t == 'NL':
            out.append('\n')
        elif t == 'COM':
            out.append(COM[a])
    return ''.join(out)


def evaluate(e):
    text = spell(e['items'])
    if len(text) % 3 == 0:
        text = text.rstrip('\n')         # the last line of a file need not end with a newline
    return _evaluate_text(e, text)


def _evaluate_text(e, text):
    case = {'config': carrier_yaml(symbols=[('MODE', 'fast')]), 'files': {'main.asm': text}}
    obs = runner.run_case(case)
    want = bytes(e['bytes'])
    if obs['status'] != 'ok':
        return {'m': f'rendering rejected: {(obs.get("msg") or "")[:140]}', 'case': case, 'text': text}
    if obs['image'] != want:
        return {'m': f'rendering assembles to {obs["image"].hex()}, the statement list to {want.hex()}', 'case': case, 'text': text}
    return None


# ---------------------------------------------------------------- repository programs rewritten

REWRITES = ['strip-comments', 'tabs', 'wide-blanks', 'trailing-blanks', 'blank-and-comment-lines', 'upper-mnemonics', 'all', 'labels-own-line', 'labels-in-front']


def _mnemonics(cfg_path):
    import yaml
    with open(cfg_path) as f:
        d = yaml.safe_load(f)
    names = set((d.get('instructions') or {}).keys()) | set((d.get('macros') or {}).keys())
    return {n.lower() for n in names}


def rewrite_text(text, how, mnems):
    """A meaning-preserving rewrite of one source file; lines containing a quote character are left as they are."""
    import re
    if how in ('labels-own-line', 'labels-in-front'):
        lines = text.split('\n')
        out = []
        k = 0
        while k < len(lines):
            line = lines[k]
            if '"' in line or "'" in line:
                out.append(line)
            elif how == 'labels-own-line':
                m = re.match(r'^(\s*[.\w]+:)[ \t]+([^;\s].*)$', line)
                if m and not re.match(r'^\s*\w+\s*(=|EQU\b)', line):
                    out.append(m.group(1))
                    out.append('\t' + m.group(2))
                else:
                    out.append(line)
            else:
                m = re.match(r'^(\s*[.\w]+:)\s*$', line)
                nxt = lines[k + 1] if k + 1 < len(lines) else ''
                m2 = re.match(r'^\s*([A-Za-z_][\w.]*)\b', nxt)
                if m and m2 and m2.group(1).lower() in mnems and '"' not in nxt and "'" not in nxt and ':' not in nxt.split(';')[0]:
                    out.append(m.group(1) + ' ' + nxt.strip())
                    k += 1
                else:
                    out.append(line)
            k += 1
        return '\n'.join(out)
    out = []
    for n, line in enumerate(text.split('\n')):
        if '"' in line or "'" in line:
            out.append(line)
            continue
        code, sep, com = line.partition(';')
        if how in ('strip-comments', 'all'):
            sep, com = '', ''
        if how in ('tabs', 'all'):
            code = re.sub(r'[ \t]+', '\t', code)
        if how == 'wide-blanks':
            code = re.sub(r'[ \t]+', '   ', code)
        if how in ('trailing-blanks', 'all'):
            code = code + ' \t ' if not sep else code
        if how in ('upper-mnemonics', 'all'):
            m = re.match(r'^(\s*(?:[.\w]+:\s*)?)([A-Za-z_][\w.]*)(.*)$', code, flags=re.S)
            if m and m.group(2).lower() in mnems and not m.group(2).startswith('.'):
                code = m.group(1) + m.group(2).upper() + m.group(3)
        out.append(code + sep + com)
        if how in ('blank-and-comment-lines', 'all') and n % 3 == 0:
            out.append('')
            out.append('\t; an added comment; with "quotes" and \'more\'')
    return '\n'.join(out)


def eval_corpus_rewrite(args):
    import os
    import shutil
    import tempfile
    from harness import corpus
    cfg, src, inc, how = args
    base = corpus.assemble_corpus_one((cfg, src, inc, None))
    if base['status'] != 'ok':
        return f'repository program no longer assembles: {(base["msg"] or "")[:120]}'
    mn = _mnemonics(cfg)
    d = tempfile.mkdtemp(prefix='vc18_', dir=runner.SCRATCH_ROOT)
    try:
        exdir = os.path.dirname(cfg)
        dst = os.path.join(d, 'ex')
        shutil.copytree(exdir, dst)
        for root, _dirs, files in os.walk(dst):
            for f in files:
                if os.path.splitext(f)[1] in corpus.EXT:
                    pth = os.path.join(root, f)
                    with open(pth) as fh:
                        t = fh.read()
                    with open(pth, 'w') as fh:
                        fh.write(rewrite_text(t, how, mn))
        rel = os.path.relpath(src, exdir)
        r = corpus.assemble_corpus_one((os.path.join(dst, os.path.basename(cfg)), os.path.join(dst, rel),
                                        os.path.join(dst, os.path.relpath(inc, exdir)), None))
        if r['status'] != 'ok':
            return f'rewritten ({how}) program rejected: {(r["msg"] or "")[:160]}'
        if r['image'] != base['image']:
            k = next((i for i in range(min(len(r['image']), len(base['image']))) if r['image'][i] != base['image'][i]), None)
            return f'rewritten ({how}) program assembles to a different image (lengths {len(base["image"])} / {len(r["image"])}, first difference at {k})'
        return None
    finally:
        shutil.rmtree(d, ignore_errors=True)


def run_long(chk):
    """A program of 1,500 statements (the statement kinds of Lexer.tla without labels) in a compact layout (12 KB) and in commented /
    spaced layouts (20 - 70 KB, over several include files as well): RoundTrip says the layout carries no meaning, so every layout
    assembles to Bytes(P)."""
    n = 1500
    vals = [(k * 7 + 3) % 256 for k in range(n)]
    want = b''.join(bytes([168, v]) for v in vals)
    compact = ''.join(f'ld8 {v}\n' for v in vals)
    commented = ''.join(f'\tld8\t{v}\t; statement number {k}, a comment with "quotes"\n\n' for k, v in enumerate(vals))
    joined = ''.join('  '.join(f'ld8 {v}' for v in vals[k:k + 6]) + '   ; six on a line\n' for k in range(0, n, 6))
    half = n // 2
    split = {'main.asm': '#include "first.asm"\n; the second half\n#include "second.asm"\n',
             'first.asm': ''.join(f'    ld8 {v}      ; {k}\n' for k, v in enumerate(vals[:half])),
             'second.asm': ''.join(f'    ld8 {v}      ; {k}\n\n\n' for k, v in enumerate(vals[half:]))}
    for name, files in (('compact', {'main.asm': compact}), ('commented', {'main.asm': commented}), ('six per line', {'main.asm': joined}), ('two includes', split)):
        case = {'config': carrier_yaml(), 'files': files, 'timeout': 120.0}
        obs = runner.run_case(case)
        chk.traces += 1
        chk.nontriv(('long', name))
        size = sum(len(t) for t in files.values())
        if obs['status'] != 'ok':
            chk.violation(f'long program ({name} layout, {size} bytes of source) rejected: {(obs.get("msg") or "")[:120]}', {'layout': name}, 'ok', obs['status'], {'kind': 'long'})
        elif obs['image'] != want:
            chk.violation(f'long program ({name} layout, {size} bytes of source): image of {len(obs["image"])} bytes, the {n} statements assemble to {len(want)} bytes',
                          {'layout': name}, len(want), len(obs['image']), {'kind': 'long'})
    chk.notes['long_program_statements'] = n


def run_corpus(chk):
    import os
    from harness import corpus
    progs = [p for p in corpus.corpus_programs() if chk.tier != 'quick' or os.path.getsize(p[1]) < 12000]
    jobs = [(c, s_, i, h) for (c, s_, i) in progs for h in (REWRITES if chk.tier != 'quick' else ['all', 'upper-mnemonics', 'wide-blanks', 'labels-own-line', 'labels-in-front'])]
    outs = runner.pmap(eval_corpus_rewrite, jobs)
    for (c, s_, i, h), r in zip(jobs, outs):
        chk.traces += 1
        chk.nontriv(('corpus', s_, h))
        if r is not None:
            chk.violation(f'{os.path.relpath(s_, corpus.REPO)}: {r}', {'path': s_, 'rewrite': h}, None, r, {'kind': 'corpus-rewrite'})
    chk.notes['corpus_rewrites'] = len(jobs)


def run(chk):
    quick = chk.tier == 'quick'
    rng = random.Random(chk.seed + 18)
    chk.rule = ('spec/Lexer.tla: TLC enumerates statement lists (label, nop, ld8 n, ld8 with a character literal a or A, ld16 label, mov a|b, .byte v,w, .cstr with an escaped quote) x a style per '
                'statement (mnemonic and register case lower/UPPER/MiXeD; blank between tokens 1 space / 3 spaces / tab / tab+space, '
                'also around commas and as indentation; no comment / plain comment / comment containing quotes and semicolons; own '
                'line / joined to the previous statement (label in front of its statement, consecutive instructions on one line) / '
                'blank line before) and checks RoundTrip: Tokenize(Render(P, c)) = P. The harness spells each rendering and the real '
                'assembler must produce Bytes(P), the same for every rendering of P. Instances: all 108 styles for single '
                'statements, 42 styles for pairs, a 10-style covering subset for three statements, preprocessor statements among ordinary ones in 16 styles; the thorough tier replays 150,000 instead of 12,000 renderings per instance and adds programs of four and five statements sampled by the simulator. '
                'Non-trivial = distinct rendered text. The repository programs are also rewritten (comments stripped, blanks changed to tabs / widened / appended, blank and comment lines added, mnemonics upper-cased, labels moved onto their own line / in front of the following instruction; lines with quote characters untouched) and must assemble to the same image under their own ISAs.')
    chk.assumptions = ['only the rewrites the statement lists are applied: case of mnemonics and registers (not labels, not directives), blanks between tokens, blank lines, comments, label placement, joining of instructions (not directives)']
    plan = ([('pre-sep-2', 'StmtsP', 'StylesSep', 2), ('all-styles-1', 'StmtsA', 'StylesAll', 1), ('half-styles-2', 'StmtsA', 'StylesHalf', 2), ('core-styles-3', 'StmtsB', 'StylesCore', 3)] if quick
            # (17 statements x 108 styles squared, or 11 x 10 to the fourth power, are millions to hundreds of millions of renderings - more than
            # fits in memory: beyond the exhaustive instances the longer programs are sampled by TLC's simulator, which evaluates Emit on every
            # successor it generates)
            else [('pre-sep-2', 'StmtsP', 'StylesSep', 2), ('pre-sep-4-simulated', 'StmtsP', 'StylesSep', 4, 'num=200'), ('all-styles-1', 'StmtsA', 'StylesAll', 1),
                  ('half-styles-2', 'StmtsA', 'StylesHalf', 2), ('core-styles-3', 'StmtsB', 'StylesCore', 3), ('core-styles-5-simulated', 'StmtsA', 'StylesCore', 5, 'num=150')])
    for entry in plan:
        tag, stmts, styles, ml = entry[:4]
        sim = entry[4] if len(entry) > 4 else None
        res = tlc.run_tlc('MC_Lexer', f'SPECIFICATION Spec\nCONSTANTS\n  Stmts <- {stmts}\n  Styles <- {styles}\n  MaxLen = {ml}\n'
                          + ''.join(f'INVARIANT {i}\n' for i in INV), workers=16 if sim is None else 1, timeout=3000, simulate=sim, depth=(ml + 2) if sim else None,
                          seed=chk.seed if sim else None)
        chk.add_tlc(res)
        emits = res.emits
        if sim:
            uniq = {}
            for e in emits:
                uniq.setdefault(json.dumps(e['items']), e)
            emits = list(uniq.values())
            res.emits = emits
        cap = 12000 if quick else 150000
        if len(emits) > cap:
            emits = rng.sample(emits, cap)
        chk.notes.setdefault('instances', []).append({'tag': tag, 'enumerated': len(res.emits), 'replayed': len(emits)})
        outs = runner.pmap(evaluate, emits)
        for e, r in zip(emits, outs):
            chk.traces += 1
            chk.nontriv(spell(e['items']))
            if r is not None:
                chk.violation(f'{r["m"]} | text: {r["text"]!r}', r['case'], e['bytes'], r['m'], {'kind': 'render'})
        e = emits[len(emits) // 2]
        chk.sample({'instance': tag, 'text': spell(e['items']), 'bytes': e['bytes']})
    run_corpus(chk)
    run_long(chk)
    chk.exhaustive = not quick
