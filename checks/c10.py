"""C10 A macro assembles to exactly its expanded instruction sequence."""
import random

from harness import runner, tlc, isagen

INV = ['SizeIsSum', 'StepsAreWholeBytes', 'Emit']
ADDR = 16
PAT = {'defn': (1, ['defnum']), 'idx': (1, ['idxreg']), 'indn': (1, ['indnum']), 'regpp': (1, ['regspp']), 'any': (1, ['anyop']), 'num': (1, ['num8']), 'reg': (1, ['regs']), 'ind': (1, ['ind']), 'num2': (2, ['num8', 'num8'])}
INVTXT = {'defn': 'mac [[5]]', 'idx': 'mac r1 + 5', 'indn': 'mac [5]', 'regpp': 'mac r1++', 'sum': 'mac 3+2', 'bare': 'mac', 'lit': 'mac 5', 'fwd': 'mac fwd', 'back': 'mac back', 'reg': 'mac r1', 'ind': 'mac [r1+5]', 'lit2': 'mac 5, 9'}
ARGTXT = {'defn': ['5'], 'idx': ['5'], 'indn': ['5'], 'regpp': [None], 'sum': ['3+2'], 'bare': [], 'lit': ['5'], 'fwd': ['fwd'], 'back': ['back'], 'lit2': ['5', '9'], 'ind': ['5'], 'reg': [None]}
OPTXT = {'defn': ['[[5]]'], 'idx': ['r1 + 5'], 'indn': ['[5]'], 'regpp': ['r1++'], 'sum': ['3+2'], 'bare': [], 'lit': ['5'], 'fwd': ['fwd'], 'back': ['back'], 'lit2': ['5', '9'], 'ind': ['[r1+5]'], 'reg': ['r1']}


def step_text(ins, ph, n):
    if ph == 'NONE':
        return ins
    if ph == 'LIT':
        return f'{ins} {n}'
    if ph == 'ARG2X':
        return f'{ins} 2*@ARG({n})'
    return f'{ins} @{ph}({n})'


def macro_isa(m):
    arg = lambda sz: {'size': sz, 'byte_align': False}
    opsets = {
        'num8': {'operand_values': {'n8': {'type': 'numeric', 'argument': arg(8)}}},
        'anyop': {'operand_values': {'an8': {'type': 'numeric', 'argument': arg(8)},
                                     'ar1': {'type': 'register', 'register': 'r1', 'bytecode': {'value': 1, 'size': 4}}}},
        'num4': {'operand_values': {'n4': {'type': 'numeric', 'argument': arg(4)}}},
        'rel8': {'operand_values': {'rl': {'type': 'relative_address', 'argument': arg(8)}}},
        'rel8e': {'operand_values': {'rle': {'type': 'relative_address', 'argument': arg(8), 'offset_from_instruction_end': True}}},
        'regs': {'operand_values': {'rr1': {'type': 'register', 'register': 'r1', 'bytecode': {'value': 1, 'size': 4}},
                                    'rr2': {'type': 'register', 'register': 'r2', 'bytecode': {'value': 2, 'size': 4}}}},
        'indnum': {'operand_values': {'ix8': {'type': 'indirect_numeric', 'argument': arg(8)}}},
        'defnum': {'operand_values': {'dx8': {'type': 'deferred_numeric', 'argument': arg(8)}}},
        'idxreg': {'operand_values': {'xr1': {'type': 'indexed_register', 'register': 'r1', 'bytecode': {'value': 2, 'size': 4},
                                              'index_operands': {'xri': {'type': 'numeric', 'argument': arg(8)}}}}},
        'numorind': {'operand_values': {'qn8': {'type': 'numeric', 'bytecode': {'value': 3, 'size': 4}, 'argument': arg(8)},
                                        'qd8': {'type': 'deferred_numeric', 'bytecode': {'value': 5, 'size': 4}, 'argument': arg(8)},
                                        'qx8': {'type': 'indexed_register', 'register': 'r1', 'bytecode': {'value': 2, 'size': 4},
                                                'index_operands': {'qxi': {'type': 'numeric', 'argument': arg(8)}}},
                                        'qi8': {'type': 'indirect_numeric', 'bytecode': {'value': 1, 'size': 4}, 'argument': arg(8)}}},
        'regspp': {'operand_values': {'rp1': {'type': 'register', 'register': 'r1', 'bytecode': {'value': 3, 'size': 4},
                                              'decorator': {'type': 'plus_plus', 'is_prefix': False}}}},
        'regsany': {'operand_values': {'rq1': {'type': 'register', 'register': 'r1', 'bytecode': {'value': 1, 'size': 4}},
                                       'rq2': {'type': 'register', 'register': 'r1', 'bytecode': {'value': 3, 'size': 4},
                                               'decorator': {'type': 'plus_plus', 'is_prefix': False}}}},
        'ind': {'operand_values': {'ir1': {'type': 'indirect_register', 'register': 'r1', 'bytecode': {'value': 1, 'size': 4},
                                           'offset': arg(4)}}},
    }
    one = lambda v, s, st: {'bytecode': {'value': v, 'size': s}, 'operands': {'count': 1, 'operand_sets': {'list': [st]}}}
    instructions = {'i4': {'bytecode': {'value': 1, 'size': 4}}, 'ld': one(168, 8, 'num8'), 'w12': one(224, 8, 'num4'),
                    'br': one(176, 8, 'rel8'), 'bre': one(177, 8, 'rel8e'), 'mv': one(12, 4, 'regs'), 'mvp': one(13, 4, 'regsany'), 'lda': {'bytecode': {'value': 10, 'size': 4}, 'operands': {'count': 1, 'operand_sets': {'list': ['numorind']}}}, 'ldx': one(208, 8, 'ind')}
    def variant(pat, steps):
        if pat == 'none':
            return {'instructions': steps}          # a variant without an operands section
        if pat == 'empty':
            return {'operands': {'count': 1, 'specific_operands': {'bare': {'list': {'nothing': {'type': 'empty'}}}}}, 'instructions': steps}
        cnt, sets = PAT[pat]
        return {'operands': {'count': cnt, 'operand_sets': {'list': sets}}, 'instructions': steps}
    variants = [variant(m['p1'], [step_text(*s) for s in m['steps']])]
    if m['v2'] != 'none':
        variants.append(variant(m['v2'], ['ld 7']))
    cfg = {'description': 'generated', 'general': isagen.base_general('big', registers=['r1', 'r2']), 'operand_sets': opsets,
           'instructions': instructions, 'macros': {'mac': variants}}
    return isagen.dump(cfg)


def filled_lines(e):
    inv = e['m']['inv']
    out = []
    sel_steps = e['m']['steps'] if len(e['fill']) == len(e['m']['steps']) and all(f[0] == s[0] for f, s in zip(e['fill'], e['m']['steps'])) else None
    for idx, (ins, k, op, lit) in enumerate(e['fill']):
        twox = bool(sel_steps) and sel_steps[idx][1] == 'ARG2X'
        if k == 'none':
            out.append(ins)
        elif op == -1:
            out.append(f'{ins} {lit}')
        elif k == 'num':
            out.append(f'{ins} {"2*" if twox else ""}{ARGTXT[inv][op]}')
        elif k == 'reg':
            out.append(f'{ins} r1')
        else:
            out.append(f'{ins} {OPTXT[inv][op]}')
    return out


def evaluate(e):
    m = e['m']
    isa = macro_isa(m)
    n = e['size'] if e['ok'] else 8
    src = f'.org {ADDR}\nback:\n{INVTXT[m["inv"]]}\nfwd:\n.byte fwd\n'
    case = {'config': isa, 'files': {'main.asm': src}, 'start': ADDR, 'end': ADDR + n}
    obs = runner.run_case(case)
    if obs['status'] == 'timeout':
        return {'m': 'did not terminate', 'case': case}
    if e['ok'] != (obs['status'] == 'ok'):
        return {'m': f'specification {"accepts" if e["ok"] else "rejects"}, implementation {obs["status"]} {(obs.get("msg") or "")[:140]} '
                     f'{obs["image"].hex() if obs.get("image") else ""}', 'case': case}
    if e['ok']:
        want = bytes(e['bytes']) + bytes([(ADDR + e['size']) & 0xFF])
        if obs['image'] != want:
            return {'m': f'macro bytes + following label: {obs["image"].hex()}, expanded sequence prescribes {want.hex()}', 'case': case}
        # an image window that begins inside the macro shows the macro's remaining bytes (the macro is not one indivisible block)
        for k in ([1 + (len(str(m)) % (e['size'] - 1))] if e['size'] >= 2 and len(str(m)) % 3 == 0 else []):
            case3 = dict(case, start=ADDR + k, fill=255)
            obs3 = runner.run_case(case3)
            if obs3['status'] != 'ok' or obs3['image'] != want[k:]:
                return {'m': f'image window starting {k} byte(s) into the macro: {obs3["image"].hex() if obs3.get("image") is not None else obs3["status"]}, '
                             f'the expanded sequence prescribes {want[k:].hex()}', 'case': case3}
        # the hand-expanded program must give the same image
        src2 = f'.org {ADDR}\nback:\n' + '\n'.join(filled_lines(e)) + '\nfwd:\n.byte fwd\n'
        case2 = dict(case, files={'main.asm': src2})
        obs2 = runner.run_case(case2)
        if obs2['status'] != 'ok' or obs2['image'] != want:
            return {'m': f'hand-expanded sequence gives {obs2["status"]} {obs2["image"].hex() if obs2.get("image") else obs2.get("msg")}, '
                         f'specification {want.hex()}', 'case': case2}
    return None


def evaluate_history(group):
    """All accepted invocations of one macro definition assembled in one program, in two orders: which variant an invocation gets
    must not depend on earlier invocations. Only macros without address-relative steps (their bytes do not depend on the address)."""
    from harness.render import parse_listing
    acc = [e for e in group if e['ok'] and e['m']['inv'] != 'fwd' and not any(f[0] in ('br', 'bre') for f in e['fill'])]
    if len(acc) < 2:
        return None
    isa = macro_isa(acc[0]['m'])
    for order in (acc, list(reversed(acc))):
        src = 'back:\n' + ''.join(INVTXT[e['m']['inv']] + '\n' for e in order)
        case = {'config': isa, 'files': {'main.asm': src}, 'pretty': 'listing'}
        obs = runner.run_case(case)
        if obs['status'] != 'ok':
            return {'m': f'program of individually accepted invocations is rejected: {(obs.get("msg") or "")[:140]}', 'case': case}
        rows = [r for r in parse_listing(obs['pretty']) if r['line'] >= 2]
        if len(rows) != len(order):
            return {'m': f'listing has {len(rows)} rows for {len(order)} invocations', 'case': case}
        for e, row in zip(order, rows):
            want = list(e['bytes'])
            if e['m']['inv'] == 'back':
                continue
            if row['bytes'] != want:
                return {'m': f'invocation "{row["instr"]}" after other invocations assembles to {bytes(row["bytes"]).hex()}, alone to {bytes(want).hex()}', 'case': case}
    return None


def run(chk):
    quick = chk.tier == 'quick'
    chk.rule = ('spec/Macro.tla: TLC enumerates macro definitions (first variant: operand pattern in {numeric, register, indirect '
                'register+offset, two numerics} x up to MaxSteps step templates over 11 templates with @ARG/@REG/@OP placeholders, '
                'literals, steps of 4, 8, 12 and 16 bits, address-relative steps from the step start and from its end; optional '
                'second variant) x invocations (literal, forward label, backward label, register, indirect, two literals). The '
                'specification selects the variant, fills placeholders, assembles each step at its own address with Bits!Flat '
                'and checks SizeIsSum / StepsAreWholeBytes. For each scenario an ISA definition with the macro is generated; '
                'the invocation followed by a label must give macro bytes + label value, a placeholder that cannot be filled '
                'must be rejected, and the hand-expanded instruction sequence must give the same image. '
                'Non-trivial = scenarios whose invocation is accepted.')
    chk.assumptions = ['the base instruction set is fixed (7 instructions); operand-selection rules themselves are decided in C13']
    ms = 2 if quick else 3
    res = tlc.run_tlc('MC_Macro', 'SPECIFICATION Spec\nCONSTANTS\n  StepAlphabet <- Steps\n  Patterns <- Pats\n  SecondVariants <- V2s\n'
                      f'  Invocations <- Invs\n  MaxSteps = {ms}\n  MacroAddr = {ADDR}\n' + ''.join(f'INVARIANT {i}\n' for i in INV), workers=16)
    chk.add_tlc(res)
    emits = res.emits
    if quick and len(emits) > 26000:
        # quick tier: seeded samples of the accepted and of the rejected definition x invocation pairs
        rng = random.Random(chk.seed)
        rej = [e for e in emits if not e['ok']]
        acc = [e for e in emits if e['ok']]
        emits = rng.sample(acc, min(len(acc), 11000)) + rng.sample(rej, min(len(rej), 5000))
    if not quick and len(emits) > 60000:
        rng = random.Random(chk.seed)
        # thorough tier: up to 250,000 accepted pairs (all of them while the instance was smaller; the pool of patterns, invocations and
        # steps has grown to two million pairs of which several hundred thousand are accepted) and 30,000 rejected ones
        acc = [e for e in emits if e['ok']]
        emits = (acc if len(acc) <= 250000 else rng.sample(acc, 250000)) + rng.sample([e for e in emits if not e['ok']], 30000)
    import time as _t
    _t0 = _t.time()
    outs = runner.pmap(evaluate, emits)
    chk.notes['replay_s'] = round(_t.time() - _t0, 1)
    for e, r in zip(emits, outs):
        chk.traces += 2 if e['ok'] else 1
        if e['ok']:
            chk.nontriv(str(e['m']))
        if r is not None:
            chk.violation(f'{r["m"]} | macro {e["m"]}', r['case'], {'ok': e['ok'], 'bytes': e['bytes'], 'size': e['size']}, r['m'],
                          {'kind': 'macro'})
    groups = {}
    for e in emits:
        groups.setdefault(str((e['m']['p1'], e['m']['steps'], e['m']['v2'])), []).append(e)
    glist = [g for g in groups.values() if len([e for e in g if e['ok']]) >= 2]
    _t0 = _t.time()
    hist = runner.pmap(evaluate_history, glist)
    chk.notes['history_s'] = round(_t.time() - _t0, 1)
    for g, r in zip(glist, hist):
        chk.traces += 2
        if r is not None:
            chk.violation(f'{r["m"]} | macro {g[0]["m"]}', r['case'], None, r['m'], {'kind': 'macro-history'})
    chk.notes['macro_definitions_with_several_invocations'] = len(glist)
    ok = [e for e in emits if e['ok'] and len(e['m']['steps']) >= 2]
    if ok:
        chk.sample({'macro': ok[len(ok) // 2]['m'], 'bytes': ok[len(ok) // 2]['bytes'], 'size': ok[len(ok) // 2]['size']})
    chk.notes['scenarios'] = {'enumerated': len(res.emits), 'replayed': len(emits), 'accepted': len([e for e in emits if e['ok']])}
    chk.exhaustive = len(emits) == len(res.emits)
