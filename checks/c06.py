"""C06 Label references resolve only within their lexical scope."""
from harness import asmcheck

WHAT = ['status', 'image']
KINDS = {'lab', 'const', 'i2', 'labreg', 'labkw', 'fillr'}
BASE = {'addr_bits': 16, 'origin': 0, 'page_size': 4, 'pre_zones_op': 'ZonesA', 'pre_zones': [('z1', 8, 11), ('z2', 10, 13)],
        'pre_data_op': 'DataA', 'pre_data': [('pd1', 6, 85, 2)]}


def instances(tier):
    yield 'predefined-register-name', dict(BASE, max_len=3, win_end=20, pre_data_op='DataReg', pre_data=[('rg', 6, 85, 2)]), 'AlphaC06reg', None
    if tier == 'quick':
        yield 'core4', dict(BASE, max_len=4, win_end=20), 'AlphaC06core', None
        yield 'len3', dict(BASE, max_len=3, win_end=20), 'AlphaC06', None
        yield 'sim7', dict(BASE, max_len=7, win_end=20), 'AlphaC06', 'num=6000'
        yield 'empty4', dict(BASE, max_len=4, win_end=20), 'AlphaC06empty', None
        yield 'mute4', dict(BASE, max_len=4, win_end=20), 'AlphaC06mute', None
        yield 'core4-labels-in-front', dict(BASE, max_len=4, win_end=20, join_labels=True), 'AlphaC06core', None
        yield 'files3', dict(BASE, max_len=15, win_end=24, blocks_op='BlocksScope', emit_inv='EmitInc'), 'MCNoAlphabet', None
    else:
        yield 'core5', dict(BASE, max_len=5, win_end=20), 'AlphaC06core', None
        yield 'len4', dict(BASE, max_len=4, win_end=20), 'AlphaC06', None
        yield 'sim6', dict(BASE, max_len=6, win_end=20), 'AlphaC06', 'num=40000'
        yield 'sim9', dict(BASE, max_len=9, win_end=20), 'AlphaC06', 'num=40000'
        yield 'empty5', dict(BASE, max_len=5, win_end=20), 'AlphaC06empty', None
        yield 'mute5', dict(BASE, max_len=5, win_end=20), 'AlphaC06mute', None
        yield 'core5-labels-in-front', dict(BASE, max_len=5, win_end=20, join_labels=True), 'AlphaC06core', None
        yield 'files4', dict(BASE, max_len=20, win_end=30, blocks_op='BlocksScope', emit_inv='EmitInc'), 'MCNoAlphabet', None


def run(chk):
    chk.rule = ('TLC enumerates every program up to MaxLen lines over AlphaC06: global / file / local label definitions with '
                'names shared across regions and files, global and file constants, references of every class (2-byte '
                'instructions whose operand byte is the resolved value), origin and zone directives (region reset), '
                'include brackets (second and third file), an excluded block, a register-named and a keyword-named label, a '
                'predefined data label. TLC checks ResolvesOnlyToVisible and NoDuplicateKeys on the specification. Every '
                'definition sits at a distinct address, so the operand byte in the image names the definition chosen; the '
                'real code is compared on accept/reject and image. The mute instances put definitions and references (resolvable, out of scope, undefined) inside #mute / #unmute stretches and muted includes. The labels-in-front instances write every label in front of the statement that follows it (same source line). The files instances append whole included files (Blocks of Asm.tla): up to three / four files and main-file fragments, a file label or file constant of the same name in several files, referenced from a local region of its own file, from its own file scope, and from the includer. Non-trivial = contains a definition or a reference.')
    chk.assumptions = ['labels immediately followed by an origin/zone directive are not generated']
    chk.exhaustive = True
    asmcheck.run_instances(chk, instances(chk.tier), WHAT, KINDS)
