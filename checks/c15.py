"""C15 Assembly is deterministic."""
import json
import os
import random
import subprocess
import tempfile

from harness import asmcheck, runner, tlc, corpus
from harness.carrier import carrier_yaml
from checks import c17

FORMATS = [None, 'listing', 'minhex', 'hex', 'intel_hex']
BASE = {'addr_bits': 16, 'origin': 0, 'page_size': 4, 'pre_zones_op': 'ZonesA', 'pre_zones': [('z1', 8, 11), ('z2', 10, 13)],
        'pre_data_op': 'DataA', 'pre_data': [('pd1', 6, 85, 2)]}
DIRMARK = {'d0': 0, 'd1': 1, 'd2': 2}


def include_case_distinct(sc):
    """Like c17.include_case but every copy of a library file carries a byte naming its directory, so that WHICH copy
    was read is visible in the image."""
    case = c17.include_case(sc)
    files = dict(case['files'])
    for name in list(files):
        d, _, f = name.partition('/')
        if f.endswith('.asm') and f != 'main.asm':
            files[name] = files[name] + f'.byte {DIRMARK[d]}\n'
    return dict(case, files=files)


def run_under(cases, seed, rotate, cwd, env_extra):
    fd, cpath = tempfile.mkstemp(prefix='vdetc_', suffix='.json', dir=runner.SCRATCH_ROOT)
    os.close(fd)
    opath = cpath + '.out'
    json.dump(cases, open(cpath, 'w'))
    env = {'PATH': os.environ.get('PATH', ''), 'PYTHONHASHSEED': str(seed), 'HOME': '/root', 'LANG': 'C.UTF-8',
           'VERIF_REPO_SRC': runner.REPO_SRC}
    env.update(env_extra)
    p = subprocess.Popen([runner.PYTHON, os.path.join(os.path.dirname(os.path.dirname(os.path.abspath(__file__))), 'harness', 'batchrun.py'),
                          cpath, opath, str(rotate)], cwd=cwd, env=env, stdout=subprocess.DEVNULL, stderr=subprocess.PIPE)
    return p, cpath, opath


def run(chk):
    rng = random.Random(chk.seed * 104729 + 15)
    quick = chk.tier == 'quick'
    nseeds = 4 if quick else 16
    chk.rule = ('spec/Include.tla: TLC checks OrderIndependent - the directory lookup loop returns the same result for every '
                'iteration order of the search-directory set (the only place where the specification has a free order). '
                f'Conformance: every case is assembled in {nseeds} separate interpreter processes with different PYTHONHASHSEED, '
                'rotated / reversed -I order, different working directories (every second one holding decoy files named like the included files) and a scrambled environment, in all four pretty-print '
                'formats plus image only; status, image and the complete pretty-print text (scratch paths normalised) must be '
                'identical across the processes. Cases: every include-graph configuration of Include.tla (copies of a file in '
                'different directories carry different bytes, so reading a different copy changes the image), rendered Asm '
                'programs with includes / registers, vocabularies with names that extend one another, operand sets whose same-type operands accept the same text (definition order has to decide), and the repository example programs. Non-trivial = distinct (case, format).')
    chk.assumptions = ['hash seeds are sampled, not exhausted: ' + str(nseeds) + ' seeds per case',
                       'absolute scratch paths in listings are normalised before comparison']
    res = tlc.run_tlc('Include', c17.include_cfg(['A', 'B'], ['d1', 'd2'] if not quick else ['d1']), workers=1)
    chk.add_tlc(res)
    cases, tags = [], []
    scs = res.emits
    if quick:
        scs = [s for s in scs if s['st'] in ('ok', 'ambiguous')]
        scs = rng.sample(scs, min(500, len(scs)))
    else:
        scs = rng.sample(scs, min(6000, len(scs)))
    for sc in scs:
        fmt = FORMATS[rng.randrange(len(FORMATS))]
        c = include_case_distinct(sc)
        # three -I spellings so that there is an order to permute
        cases.append(dict(c, pretty=fmt))
        tags.append(('include-graph', json.dumps(sc, sort_keys=True), fmt))
    # rendered Asm programs with includes
    r = asmcheck.enumerate_scenarios('MC_Asm', dict(BASE, max_len=6, emit_inv='EmitInc', win_end=14), alphabet='AlphaC17',
                                     simulate='num=3000' if quick else 'num=20000', depth=9, seed=chk.seed + 5)
    chk.add_tlc(r)
    for s in r.emits:
        for fmt in (['listing'] if quick else FORMATS):
            case, _ = asmcheck.build_case(s, dict(BASE, win_end=14), pretty=fmt)
            cases.append(case)
            tags.append(('asm', json.dumps(s['prog']), fmt))
    # vocabularies whose names are prefixes / dotted extensions of one another: any iteration over a set of names shows here
    from harness import isagen
    for variant in range(3 if quick else 8):
        mn = [['ld', 'ld.b', 'b', 'bx'], ['b', 'bx', 'ld.b', 'ld'], ['mov', 'mov.w', 'w', 'mo'], ['st', 'st.x', 'x', 'st.x.y'],
              ['a1', 'a1.b2', 'b2', 'a'], ['jp', 'jp.nz', 'nz', 'z'], ['in', 'in.a', 'out', 'out.a'], ['c', 'c.c', 'c.c.c', 'cc']][variant]
        keys = {'pa': 1, 'pa.dir': 2, 'pb': 3, 'pb.dir': 4, 'p': 5} if variant % 2 == 0 else {'x.y': 1, 'x': 2, 'x.y.z': 3, 'y': 4}
        cfg = {'description': 'vocabulary', 'general': isagen.base_general('big', registers=['ra', 'rab', 'r']),
               'operand_sets': {'en': {'operand_values': {'e': {'type': 'enumeration', 'bytecode': {'size': 8, 'value_dict': dict(keys)},
                                                                 'argument': {'size': 8, 'byte_align': True, 'value_dict': dict(keys)}}}},
                                'rg': {'operand_values': {'r1': {'type': 'register', 'register': 'ra', 'bytecode': {'value': 1, 'size': 8}},
                                                          'r2': {'type': 'register', 'register': 'rab', 'bytecode': {'value': 2, 'size': 8}},
                                                          'r3': {'type': 'register', 'register': 'r', 'bytecode': {'value': 3, 'size': 8}}}}},
               'instructions': {m: {'bytecode': {'value': 16 + i, 'size': 8}} for i, m in enumerate(mn)}}
        cfg['instructions']['en'] = {'bytecode': {'value': 0xE0, 'size': 8}, 'operands': {'count': 1, 'operand_sets': {'list': ['en']}}}
        cfg['instructions']['rg'] = {'bytecode': {'value': 0xF0, 'size': 8}, 'operands': {'count': 1, 'operand_sets': {'list': ['rg']}}}
        src = ''.join(m + '\n' for m in mn) + ' '.join(mn) + '\n' + ''.join(f'en {k}\n' for k in keys) + 'rg ra\nrg rab\nrg r\n'
        for fmt in FORMATS:
            cases.append({'config': isagen.dump(cfg), 'files': {'main.asm': src}, 'pretty': fmt})
            tags.append(('vocabulary', json.dumps({'mnemonics': mn, 'keys': list(keys)}), fmt))
    # operand sets whose operands are of the same type and accept the same text: the first in definition order has to win in every process
    for variant in range(2 if quick else 6):
        names = [['short', 'long_form', 'wide', 'x', 'alpha9', 'zz'], ['n8', 'n16', 'n4', 'n12', 'q', 'number'], ['a', 'bb', 'ccc', 'dddd', 'e5', 'f_6'],
                 ['op_one', 'op_two', 'op_three', 'op_four', 'op_five', 'op_six'], ['k1', 'k2', 'k3', 'k4', 'k5', 'k6'], ['m', 'mm', 'mmm', 'mmmm', 'n', 'nn']][variant]
        nums = {n: {'type': 'numeric', 'bytecode': {'value': i + 1, 'size': 8}, 'argument': {'size': 8 * (1 + i % 2), 'byte_align': True}} for i, n in enumerate(names)}
        inds = {n: ({'type': 'indirect_register', 'register': 'sp', 'bytecode': {'value': 0x40 + i, 'size': 8}} if i % 2 == 0 else
                    {'type': 'indirect_register', 'register': 'sp', 'bytecode': {'value': 0x40 + i, 'size': 8}, 'offset': {'size': 8, 'byte_align': True}})
                for i, n in enumerate(names)}
        enums = {n: {'type': 'numeric_enumeration', 'bytecode': {'size': 8, 'value_dict': {7: 0x80 + i, 20 + i: 0x90 + i}}} for i, n in enumerate(names)}
        cfg = {'description': 'same-type operands', 'general': isagen.base_general('big', registers=['sp']),
               'operand_sets': {'nums': {'operand_values': nums}, 'inds': {'operand_values': inds}, 'enums': {'operand_values': enums}},
               'instructions': {'ldn': {'bytecode': {'value': 1, 'size': 8}, 'operands': {'count': 1, 'operand_sets': {'list': ['nums']}}},
                                'ldi': {'bytecode': {'value': 2, 'size': 8}, 'operands': {'count': 1, 'operand_sets': {'list': ['inds']}}},
                                'lde': {'bytecode': {'value': 3, 'size': 8}, 'operands': {'count': 1, 'operand_sets': {'list': ['enums']}}},
                                'ld2': {'bytecode': {'value': 4, 'size': 8}, 'operands': {'count': 2, 'operand_sets': {'list': ['inds', 'nums']}}}}}
        src = 'start:\nldn 5\nldi [sp]\nldi [sp+3]\nlde 7\nld2 [sp], 7\nafter:\n.2byte after\n'
        for fmt in FORMATS:
            cases.append({'config': isagen.dump(cfg), 'files': {'main.asm': src}, 'pretty': fmt})
            tags.append(('same-type-operands', json.dumps(names), fmt))
    # the same symbol given twice on the command line (rejected or not, the outcome may not depend on the process), several symbols
    for defs in (['SYMA=13', 'SYMA=26'], ['SYMA=13', 'SYMB=2', 'SYMC=3', 'SYMD=4'], ['SYMB=1', 'SYMA=5', 'SYMA=5', 'SYMA=7']):
        for fmt in (None, 'listing'):
            cases.append({'config': carrier_yaml(), 'files': {'main.asm': 'start:\nld8 SYMA\n#if SYMA == 13\n.byte 1\n#else\n.byte 2, 3\n#endif\nafter:\n.2byte after\n'},
                          'defines': defs, 'pretty': fmt})
            tags.append(('command-line symbols', json.dumps(defs), fmt))
    # one library file reachable through two searched directories as the very same file (hard link)
    for fmt in ('listing', None):
        cases.append({'config': carrier_yaml(), 'files': {'d0/main.asm': 'nop\n#include "lib.asm"\n', 'd1/lib.asm': 'lab9:\n.byte 7\n'}, 'main': 'd0/main.asm',
                      'links': [('d1/lib.asm', 'd2/lib.asm')], 'include_dirs': ['d1', 'd2'], 'pretty': fmt})
        tags.append(('one file in two directories', 'lib.asm', fmt))
    # two searched directories whose names differ only in letter case (two directories, not one), the file in one of them; and a
    # searched directory that holds a DIRECTORY named like the included file: whatever the outcome is, it is the same in every process
    # and for every order of the -I options
    for fmt in ('listing', None):
        cases.append({'config': carrier_yaml(), 'files': {'d0/main.asm': 'nop\n#include "defs.asm"\n', 'inc/Lib/defs.asm': 'lab9:\n.byte 7\n', 'inc/lib/.keep': ''},
                      'main': 'd0/main.asm', 'include_dirs': ['inc/Lib', 'inc/lib'], 'pretty': fmt})
        tags.append(('directories that differ in letter case only', 'defs.asm', fmt))
        cases.append({'config': carrier_yaml(), 'files': {'d0/main.asm': 'nop\n#include "kernel"\n', 'd1/kernel': 'lab9:\n.byte 7\n', 'd2/kernel/.keep': '', 'd3/kernel/.keep': ''},
                      'main': 'd0/main.asm', 'include_dirs': ['d1', 'd2', 'd3'], 'pretty': fmt})
        tags.append(('a directory named like the included file', 'kernel', fmt))
    # long comments (wider than any terminal) and text beyond ASCII in comments and strings
    longc = 'start:\nld8 1 ; ' + 'a comment that is much wider than a terminal of forty columns ' * 4 + '\n.cstr "caf\u00e9 \u00e0 la carte"  ; \u00fcber\nafter:\n.2byte after\n'
    for fmt in FORMATS:
        cases.append({'config': carrier_yaml(), 'files': {'main.asm': longc}, 'pretty': fmt})
        tags.append(('long comment and non-ASCII text', 'main.asm', fmt))
    # repository programs (absolute paths: run in place, include dir = their directory)
    ncorp = 0
    for cfg, src, inc in corpus.corpus_programs():
        if quick and os.path.getsize(src) > 20000:
            continue
        files = {}
        for f in os.listdir(inc):
            p = os.path.join(inc, f)
            if os.path.isfile(p) and os.path.splitext(f)[1] in corpus.EXT:
                files[f] = open(p).read()
        for fmt in (['listing', 'minhex'] if quick else FORMATS):
            cases.append({'config': open(cfg).read(), 'config_name': 'isa.yaml', 'files': files, 'main': os.path.basename(src),
                          'include_dirs': ['.'], 'pretty': fmt, 'timeout': 60.0})
            tags.append(('corpus', os.path.relpath(src, corpus.REPO), fmt))
            ncorp += 1
    chk.notes['cases'] = {'include_graph': len(scs), 'asm_rendered': len(r.emits), 'corpus_runs': ncorp, 'processes': nseeds}
    # run all cases under each seed, in parallel processes
    procs = []
    cwds = []
    for k in range(nseeds):
        cwd = tempfile.mkdtemp(prefix=f'vcwd{k}_', dir=runner.SCRATCH_ROOT)
        cwds.append(cwd)
        env_extra = {f'VERIF_JUNK_{j}': str(rng.random()) for j in range(k)}
        # terminal width and locale of the process (the outputs are files: neither may matter)
        if k % 3 == 1:
            env_extra['COLUMNS'] = '40'
        if k % 3 == 2:
            env_extra['COLUMNS'] = '200'
            env_extra['LINES'] = '10'
        env_extra['LC_ALL'] = ['C.UTF-8', 'C', 'POSIX', 'C.UTF-8'][k % 4]
        env_extra['LANG'] = env_extra['LC_ALL']
        if k % 2:
            env_extra['TMPDIR'] = cwd
            # decoys: the working directory is not a search directory, files lying there must not be picked up
            for nm in ('A.asm', 'B.asm', 'inc1.asm', 'inc2.asm', 'main.asm'):
                with open(os.path.join(cwd, nm), 'w') as f:
                    f.write('.byte 99\n')
        procs.append(run_under(cases, seed=[0, 1, 2, 3, 7, 11, 42, 99, 123, 1000, 31337, 65535, 5, 6, 8, 9][k], rotate=k, cwd=cwd, env_extra=env_extra))
    outs = []
    for (p, cpath, opath) in procs:
        _, err = p.communicate(timeout=3000)
        if p.returncode != 0 or not os.path.exists(opath):
            chk.machinery(f'batch process failed: rc={p.returncode} {err.decode()[-400:]}')
            outs.append(None)
        else:
            outs.append(json.load(open(opath)))
        for f in (cpath, opath):
            if os.path.exists(f):
                os.unlink(f)
    import shutil
    for d in cwds:
        shutil.rmtree(d, ignore_errors=True)
    outs = [o for o in outs if o is not None]
    if len(outs) < 2:
        chk.machinery('fewer than two batch processes completed')
        return
    for i, (c, t) in enumerate(zip(cases, tags)):
        chk.traces += len(outs)
        chk.nontriv(t)
        ref = outs[0][i]
        if t[0] in ('same-type-operands', 'corpus', 'long comment and non-ASCII text') and ref['status'] != 'ok':
            chk.machinery(f'{t[0]} case is meant to assemble but does not: {ref["msg"][:160]}')
        for k in range(1, len(outs)):
            o = outs[k][i]
            diffs = [f for f in ('status', 'image', 'pretty') if o[f] != ref[f]]
            if diffs:
                chk.violation(f'{t[0]} case differs between interpreter processes in {diffs} (format {t[2]}): '
                              f'{ref["status"]}/{(ref["image"] or "")[:40]} vs {o["status"]}/{(o["image"] or "")[:40]}; {ref["msg"][:80]} vs {o["msg"][:80]}',
                              c, {k2: ref[k2] for k2 in ('status', 'image')}, {k2: o[k2] for k2 in ('status', 'image')}, {'kind': t[0]})
                break
    # through the command line: a search directory literally called "~" under the working directory, under different HOME values
    home_case = {'config': carrier_yaml(), 'files': {'main.asm': 'nop\n#include "lib.asm"\n.byte 2\n', '~/lib.asm': '.byte 7\n'}, 'include_dirs': ['~'],
                 'relative_paths': True, 'pretty': 'listing'}
    homes = []
    other_home = tempfile.mkdtemp(prefix='vhome_', dir=runner.SCRATCH_ROOT)       # a home directory that holds a file of the included name
    with open(os.path.join(other_home, 'lib.asm'), 'w') as f:
        f.write('.byte 9\n')
    for hv in ('/root', '/nonexistent-home', other_home):
        r = runner.run_cli(home_case, env_extra={'HOME': hv})
        homes.append((hv, r['status'], r['image'].hex() if r.get('image') is not None else None))
        chk.traces += 1
    if len({h[1:] for h in homes}) != 1:
        chk.violation(f'the same command line in the same directory gives different results under different HOME values: {homes}', home_case, homes[0], homes[1:], {'kind': 'home'})
    chk.notes['home_values'] = [(('<home with lib.asm>' if h[0] == other_home else h[0]),) + h[1:] for h in homes]
    import shutil as _sh
    _sh.rmtree(other_home, ignore_errors=True)
    chk.sample({'case': tags[0][0], 'detail': json.loads(tags[0][1]), 'format': tags[0][2], 'outputs_identical_across': len(outs)})
    chk.sample({'case': tags[-1][0], 'detail': tags[-1][1], 'format': tags[-1][2]})
    chk.exhaustive = False
