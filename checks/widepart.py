"""Fields of 1..64 bits with arbitrary 64-bit values: recorded from the real packer, validated by spec/Trace_Pack.tla on bit strings."""
import json
import os
import random
import tempfile

from harness import runner, tlc


def bits(n):
    return [int(c) for c in bin(n)[2:]] if n else []


def record_batch(args):
    seed, n, boundary_bias = args
    runner.import_repo()
    from bespokeasm.assembler.bytecode.assembled import AssembledInstruction
    from bespokeasm.assembler.bytecode.parts import NumericByteCodePart
    from bespokeasm.assembler.line_identifier import LineIdentifier
    lid = LineIdentifier(1, 'wide')
    rng = random.Random(seed)
    recs = []
    for _ in range(n):
        fs = []
        for _ in range(rng.randrange(1, 5)):
            w = rng.randrange(1, 65)
            kind = rng.random()
            if kind < boundary_bias:
                v = rng.choice([-(1 << (w - 1)), (1 << w) - 1, -(1 << (w - 1)) - 1, 1 << w, 0, -1, 1 << (w - 1), (1 << (w - 1)) - 1,
                                -(1 << w), -(1 << w) + 1, (1 << w) + 1])
            elif kind < 0.85:
                v = rng.randrange(-(1 << (w - 1)), 1 << w)
            else:
                v = rng.randrange(-(1 << w) - 5, (1 << w) + 5)
            fs.append((v, w, rng.random() < 0.3, rng.choice(['big', 'little'])))
        ok, out = True, []
        try:
            ai = AssembledInstruction(lid, [NumericByteCodePart(v, w, al, en, lid) for v, w, al, en in fs])
            b = ai.get_bytes(None, 0, ai.byte_size)
            out = list(b) if b is not None else None
            if out is None:
                ok = False
                out = []
        except SystemExit:
            ok = False
        except OverflowError:
            ok = False
        recs.append({'fields': [{'w': w, 'al': al, 'en': en, 'neg': v < 0, 'mag': bits(abs(v))} for v, w, al, en in fs], 'bytes': out, 'ok': ok,
                     'src': [[v, w, al, en] for v, w, al, en in fs]})
    return recs


def run_wide(chk, n_total, boundary_bias=0.35):
    seeds = [(chk.seed * 1000 + i, n_total // 16, boundary_bias) for i in range(16)]
    recs = []
    for r in runner.pmap(record_batch, seeds, chunksize=1):
        recs.extend(r)
    fd, path = tempfile.mkstemp(prefix='vwide_', suffix='.json', dir=runner.SCRATCH_ROOT)
    slim = [{'fields': r['fields'], 'bytes': r['bytes'], 'ok': r['ok']} for r in recs]
    # self-test: a corrupted record must be rejected
    good = next((i for i, r in enumerate(slim) if r['ok'] and r['bytes']), None)
    corrupted_idx = None
    if good is not None:
        bad = json.loads(json.dumps(slim[good]))
        bad['bytes'][0] ^= 0x80
        slim.append(bad)
        corrupted_idx = len(slim)
    with os.fdopen(fd, 'w') as f:
        json.dump(slim, f)
    try:
        res = tlc.run_tlc('Trace_Pack', 'SPECIFICATION Spec\nINVARIANT Accepted\n', workers=16, env={'TRACE_FILE': path}, timeout=3000)
    finally:
        os.unlink(path)
    chk.add_tlc(res)
    acc = {a['t'] for a in res.tags.get('ACC', [])}
    if corrupted_idx is not None and corrupted_idx in acc:
        chk.machinery('Trace_Pack accepted a corrupted record')
    for i, r in enumerate(recs, start=1):
        chk.traces += 1
        chk.nontriv(('wide', str(r['src'])))
        if i not in acc:
            chk.violation(f'fields (value, width, aligned, endian) {r["src"]}: implementation {"emits " + bytes(r["bytes"]).hex() if r["ok"] else "rejects"}; '
                          f'not the prescribed layout / admissibility', {'fields': r['src']}, 'Trace_Pack.RecOk', {'ok': r['ok'], 'bytes': r['bytes']},
                          {'kind': 'wide'})
    chk.notes['wide_fields'] = {'records': len(recs), 'rejected_by_implementation': sum(1 for r in recs if not r['ok']),
                                'max_width': 64, 'corrupted_record_rejected': corrupted_idx is not None and corrupted_idx not in acc}
    ex = recs[len(recs) // 2]
    chk.sample({'instance': 'wide fields (bit strings)', 'fields(value,width,aligned,endian)': ex['src'], 'implementation_accepts': ex['ok'], 'bytes': ex['bytes']})
