"""Fields of 1..64 bits with arbitrary 64-bit values: recorded from the real packer, validated by spec/Trace_Pack.tla on bit strings."""
import json
import os
import random
import tempfile

from harness import runner, tlc


def bits(n):
    return [int(c) for c in bin(n)[2:]] if n else []


def record_batch(args):
    seed, n, boundary_bias = args
    runner.import_repo()
    from bespokeasm.assembler.bytecode.assembled import AssembledInstruction
    from bespokeasm.assembler.bytecode.parts import NumericByteCodePart
    from bespokeasm.assembler.line_identifier import LineIdentifier
    lid = LineIdentifier(1, 'wide')
    rng = random.Random(seed)
    recs = []
    for _ in range(n):
        fs = []
        for _ in range(rng.randrange(1, 5)):
            w = rng.randrange(1, 65)
            kind = rng.random()
            if kind < boundary_bias:
                v = rng.choice([-(1 << (w - 1)), (1 << w) - 1, -(1 << (w - 1)) - 1, 1 << w, 0, -1, 1 << (w - 1), (1 << (w - 1)) - 1,
                                -(1 << w), -(1 << w) + 1, (1 << w) + 1])
            elif kind < 0.85:
                v = rng.randrange(-(1 << (w - 1)), 1 << w)
            else:
                v = rng.randrange(-(1 << w) - 5, (1 << w) + 5)
            fs.append((v, w, rng.random() < 0.3, rng.choice(['big', 'little'])))
        ok, out = True, []
        try:
            ai = AssembledInstruction(lid, [NumericByteCodePart(v, w, al, en, lid) for v, w, al, en in fs])
            b = ai.get_bytes(None, 0, ai.byte_size)
            out = list(b) if b is not None else None
            if out is None:
                ok = False
                out = []
        except SystemExit:
            ok = False
        except OverflowError:
            ok = False
        recs.append({'fields': [{'w': w, 'al': al, 'en': en, 'neg': v < 0, 'mag': bits(abs(v))} for v, w, al, en in fs], 'bytes': out, 'ok': ok,
                     'src': [[v, w, al, en] for v, w, al, en in fs]})
    return recs


def run_wide(chk, n_total, boundary_bias=0.35):
    seeds = [(chk.seed * 1000 + i, n_total // 16, boundary_bias) for i in range(16)]
    recs = []
    for r in runner.pmap(record_batch, seeds, chunksize=1):
        recs.extend(r)
    fd, path = tempfile.mkstemp(prefix='vwide_', suffix='.json', dir=runner.SCRATCH_ROOT)
    slim = [{'fields': r['fields'], 'bytes': r['bytes'], 'ok': r['ok']} for r in recs]
    # self-test: a corrupted record must be rejected
    good = next((i for i, r in enumerate(slim) if r['ok'] and r['bytes']), None)
    corrupted_idx = None
    if good is not None:
        bad = json.loads(json.dumps(slim[good]))
        bad['bytes'][0] ^= 0x80
        slim.append(bad)
        corrupted_idx = len(slim)
    with os.fdopen(fd, 'w') as f:
        json.dump(slim, f)
    try:
        res = tlc.run_tlc('Trace_Pack', 'SPECIFICATION Spec\nINVARIANT Accepted\n', workers=16, env={'TRACE_FILE': path}, timeout=3000)
    finally:
        os.unlink(path)
    chk.add_tlc(res)
    acc = {a['t'] for a in res.tags.get('ACC', [])}
    if corrupted_idx is not None and corrupted_idx in acc:
        chk.machinery('Trace_Pack accepted a corrupted record')
    for i, r in enumerate(recs, start=1):
        chk.traces += 1
        chk.nontriv(('wide', str(r['src'])))
        if i not in acc:
            chk.violation(f'fields (value, width, aligned, endian) {r["src"]}: implementation {"emits " + bytes(r["bytes"]).hex() if r["ok"] else "rejects"}; '
                          f'not the prescribed layout / admissibility', {'fields': r['src']}, 'Trace_Pack.RecOk', {'ok': r['ok'], 'bytes': r['bytes']},
                          {'kind': 'wide'})
    chk.notes['wide_fields'] = {'records': len(recs), 'rejected_by_implementation': sum(1 for r in recs if not r['ok']),
                                'max_width': 64, 'corrupted_record_rejected': corrupted_idx is not None and corrupted_idx not in acc}
    ex = recs[len(recs) // 2]
    chk.sample({'instance': 'wide fields (bit strings)', 'fields(value,width,aligned,endian)': ex['src'], 'implementation_accepts': ex['ok'], 'bytes': ex['bytes']})


def _corpus_pack(args):
    cfg, src, inc = args
    import shutil
    from harness import traces
    runner.import_repo()
    from bespokeasm.assembler.engine import Assembler
    d = tempfile.mkdtemp(prefix='vpk_', dir=runner.SCRATCH_ROOT)
    try:
        out = os.path.join(d, 'o.bin')
        status, msg, ev, img = traces.record(lambda: Assembler(src, cfg, True, out, 0, None, 0, False, 'listing', 'stdout', 0, [inc], []).assemble_bytecode(), out)
        recs = {}
        for e in ev:
            if e['ev'] == 'pack':
                key = json.dumps([e['parts'], e['bytes']])
                recs[key] = e
        return status, list(recs.values())
    finally:
        shutil.rmtree(d, ignore_errors=True)


def run_corpus_pack(chk):
    """Every instruction of every repository program (real ISAs, all operand types): the parts the implementation packed and the
    bytes it produced are validated by Trace_Pack.tla (bytes = flat layout of the parts; reserved size = emitted size)."""
    from harness import corpus
    progs = corpus.corpus_programs()
    if chk.tier == 'quick':
        progs = [p for p in progs if os.path.getsize(p[1]) < 40000]
    outs = runner.pmap(_corpus_pack, progs)
    slim, srcs = [], []
    seen = set()
    for (cfg, src, inc), (status, recs) in zip(progs, outs):
        for e in recs:
            key = json.dumps([e['parts'], e['bytes']])
            if key in seen:
                continue
            seen.add(key)
            if any(not isinstance(p[0], int) for p in e['parts']):
                continue
            slim.append({'fields': [{'w': p[1], 'al': bool(p[2]), 'en': p[3], 'neg': p[0] < 0, 'mag': bits(abs(p[0]))} for p in e['parts']],
                         'bytes': e['bytes'], 'ok': True})
            srcs.append((os.path.relpath(src, corpus.REPO), e))
    if not slim:
        chk.machinery('no pack events recorded from the corpus')
        return
    fd, path = tempfile.mkstemp(prefix='vpkt_', suffix='.json', dir=runner.SCRATCH_ROOT)
    with os.fdopen(fd, 'w') as f:
        json.dump(slim, f)
    try:
        res = tlc.run_tlc('Trace_Pack', 'SPECIFICATION Spec\nINVARIANT Accepted\n', workers=16, env={'TRACE_FILE': path}, timeout=3000)
    finally:
        os.unlink(path)
    chk.add_tlc(res)
    acc = {a['t'] for a in res.tags.get('ACC', [])}
    for i, (src, e) in enumerate(srcs, start=1):
        chk.traces += 1
        if i not in acc:
            chk.violation(f'{src}: instruction at address {e["address"]} packs parts (value, size, aligned, endian) {e["parts"]} into {bytes(e["bytes"]).hex()}, '
                          f'not their flat layout', {'path': src}, 'Trace_Pack.RecOk', e['bytes'], {'kind': 'corpus-pack'})
        elif e['reserved'] != len(e['bytes']):
            chk.violation(f'{src}: instruction at address {e["address"]} reserved {e["reserved"]} bytes but packs {len(e["bytes"])}', {'path': src},
                          e['reserved'], len(e['bytes']), {'kind': 'corpus-pack-size'})
    chk.notes['corpus_pack_events'] = {'programs': len(progs), 'distinct_instruction_encodings': len(slim)}
