"""C19 Malformed ISA definitions and unmet version requirements are rejected."""
import copy
import json
import os

from harness import runner, tlc, isagen, corpus

INV = ['ValidateIffWellFormed', 'SingleFaultRejected', 'GateIsVersionOrder', 'OperatorsConsistent', 'Emit']
FINAL = 4000


def vtext(v):
    rel = '.'.join(str(x) for x in v['rel'])
    p = v['pre']
    if p == FINAL:
        return rel
    kind = {1: 'a', 2: 'b', 3: 'rc'}[p // 1000]
    return f'{rel}{kind}{p % 1000}'


def base(shape):
    cfg = {
        'description': 'generated definition',
        'general': {'address_size': 16, 'endian': 'big', 'registers': ['a', 'b'],
                    'identifier': {'name': 'genisa', 'version': '1.2.3', 'extension': 'gen'}},
        'operand_sets': {
            'imm8': {'operand_values': {'i8': {'type': 'numeric', 'argument': {'size': 8, 'byte_align': True}}}},
            'regs': {'operand_values': {'ra': {'type': 'register', 'register': 'a', 'bytecode': {'value': 1, 'size': 4}}}},
            'bits': {'operand_values': {'bt': {'type': 'numeric_bytecode', 'bytecode': {'size': 4, 'min': 0, 'max': 7}}}},
            # a range of exactly one value (not inverted), a range over negative numbers
            'point': {'operand_values': {'pt': {'type': 'numeric_bytecode', 'bytecode': {'size': 4, 'min': 5, 'max': 5}}}},
            'signed': {'operand_values': {'sg': {'type': 'numeric_bytecode', 'bytecode': {'size': 4, 'min': -8, 'max': -1}}}},
        },
        'instructions': {
            'nop': {'bytecode': {'value': 0, 'size': 8}},
            'ld': {'bytecode': {'value': 1, 'size': 8}, 'operands': {'count': 1, 'operand_sets': {'list': ['imm8']}}},
            'mv': {'bytecode': {'value': 2, 'size': 4}, 'operands': {'count': 1, 'operand_sets': {'list': ['regs']}}},
            'bt': {'bytecode': {'value': 3, 'size': 4}, 'operands': {'count': 1, 'operand_sets': {'list': ['bits']}}},
            'pt': {'bytecode': {'value': 4, 'size': 4}, 'operands': {'count': 1, 'operand_sets': {'list': ['point']}}},
            'sg': {'bytecode': {'value': 5, 'size': 4}, 'operands': {'count': 1, 'operand_sets': {'list': ['signed']}}},
        },
    }
    if shape == 'minimal':
        del cfg['general']['registers']
        del cfg['operand_sets']['regs']
        del cfg['instructions']['mv']
        del cfg['general']['identifier']
    if shape in ('macros',):
        cfg['macros'] = {'twice': [{'operands': {'count': 1, 'operand_sets': {'list': ['imm8']}}, 'instructions': ['ld @ARG(0)', 'ld @ARG(0)']}]}
    if shape in ('zones',):
        cfg['predefined'] = {'memory_zones': [{'name': 'zone1', 'start': 8, 'end': 15}]}
    if shape in ('predefined',):
        cfg['predefined'] = {'constants': [{'name': 'PCON', 'value': 7}], 'data': [{'name': 'pdat', 'address': 100, 'value': 0, 'size': 2}],
                             'symbols': [{'name': 'PSYM', 'value': '3'}], 'memory_zones': [{'name': 'GLOBAL', 'start': 0, 'end': 1000}]}
    return cfg


def inject(cfg, fault):
    g = cfg.get('general', {})
    if fault == 'none':
        return
    if fault == 'deprecated_memory':
        cfg.setdefault('predefined', {})['memory'] = [{'name': 'old', 'address': 0, 'value': 0, 'size': 1}]
    elif fault == 'no_general':
        del cfg['general']
    elif fault == 'no_instructions':
        del cfg['instructions']
    elif fault == 'min_version_newer':
        g['min_version'] = '0.4.10'
    elif fault == 'min_version_older':
        g['min_version'] = '0.2.11'
    elif fault == 'origin_below_global':
        cfg.setdefault('predefined', {})['memory_zones'] = [{'name': 'GLOBAL', 'start': 16, 'end': 1000}]
        g['origin'] = 4
    elif fault == 'isa_version_not_semver':
        g['identifier'] = {'name': 'genisa', 'version': 'one.two'}
    elif fault == 'register_keyword':
        g['registers'] = list(g.get('registers', [])) + ['org']
    elif fault == 'unknown_operand_type':
        cfg['operand_sets']['imm8']['operand_values']['bad'] = {'type': 'nummeric', 'argument': {'size': 8, 'byte_align': True}}
    elif fault == 'undeclared_register':
        cfg['operand_sets']['imm8']['operand_values']['rz'] = {'type': 'register', 'register': 'zz', 'bytecode': {'value': 1, 'size': 4}}
    elif fault == 'inverted_range':
        cfg['operand_sets']['bits']['operand_values']['bt']['bytecode'].update({'min': 5, 'max': 2})
    elif fault == 'mnemonic_keyword':
        cfg['instructions']['fill'] = {'bytecode': {'value': 9, 'size': 8}}
    elif fault == 'mnemonic_keyword_upper':
        cfg['instructions']['lsb'] = {'bytecode': {'value': 9, 'size': 8}}
    elif fault == 'missing_bytecode':
        cfg['instructions']['nob'] = {'operands': {'count': 1, 'operand_sets': {'list': ['imm8']}}}
    elif fault == 'count_mismatch':
        cfg['instructions']['ld']['operands']['count'] = 2
    elif fault == 'unknown_operand_set':
        cfg['instructions']['ld']['operands']['operand_sets']['list'] = ['nosuchset']
    elif fault == 'count_zero_with_list':
        cfg['instructions']['ld']['operands']['count'] = 0
    elif fault == 'count_zero_unknown_set':
        cfg['instructions']['ld']['operands'] = {'count': 0, 'operand_sets': {'list': ['nosuchset']}}
    elif fault == 'count_smaller_than_list':
        cfg['instructions']['ld']['operands'] = {'count': 1, 'operand_sets': {'list': ['imm8', 'imm8']}}
    elif fault == 'variant_count_mismatch':
        cfg['instructions']['ld']['variants'] = [{'bytecode': {'value': 77, 'size': 8}, 'operands': {'count': 2, 'operand_sets': {'list': ['imm8']}}}]
    elif fault == 'variant_count_zero_with_list':
        cfg['instructions']['ld']['variants'] = [{'bytecode': {'value': 77, 'size': 8}, 'operands': {'count': 0, 'operand_sets': {'list': ['imm8']}}}]
    elif fault == 'variant_unknown_operand_set':
        cfg['instructions']['ld']['variants'] = [{'bytecode': {'value': 77, 'size': 8}, 'operands': {'count': 1, 'operand_sets': {'list': ['nosuchset']}}}]
    elif fault in ('specific_undeclared_register', 'specific_inverted_range', 'specific_unknown_operand_type'):
        # the fault sits in an explicitly listed operand combination of an instruction the program never uses
        op = {'specific_undeclared_register': {'type': 'register', 'register': 'zz', 'bytecode': {'value': 1, 'size': 4}},
              'specific_inverted_range': {'type': 'numeric_bytecode', 'bytecode': {'size': 4, 'min': 7, 'max': 0}},
              'specific_unknown_operand_type': {'type': 'no_such_type', 'bytecode': {'value': 1, 'size': 4}}}[fault]
        cfg['instructions']['unused'] = {'bytecode': {'value': 9, 'size': 4}, 'operands': {'count': 1, 'specific_operands': {'only': {'list': {'sx': op}}}}}
    elif fault == 'macro_count_mismatch':
        # the same count / list faults in a macro the program never uses
        cfg.setdefault('macros', {})['inc2'] = [{'operands': {'count': 2, 'operand_sets': {'list': ['imm8']}}, 'instructions': ['ld @ARG(0)']}]
    elif fault == 'macro_count_smaller_than_list':
        cfg.setdefault('macros', {})['inc2'] = [{'operands': {'count': 1, 'operand_sets': {'list': ['imm8', 'imm8']}}, 'instructions': ['ld @ARG(0)']}]
    elif fault == 'macro_unknown_operand_set':
        cfg.setdefault('macros', {})['inc2'] = [{'operands': {'count': 1, 'operand_sets': {'list': ['nosuchset']}}, 'instructions': ['ld @ARG(0)']}]
    elif fault == 'macro_keyword':
        cfg.setdefault('macros', {})['zero'] = [{'instructions': ['nop']}]
    elif fault == 'macro_same_as_instruction':
        cfg.setdefault('macros', {})['nop'] = [{'instructions': ['ld 1']}]
    elif fault == 'macro_same_as_instruction_other_case':
        # the instruction is declared in upper case, the macro in lower case: the same name, mnemonics are case-insensitive
        cfg['instructions']['MVU'] = {'bytecode': {'value': 8, 'size': 8}}
        cfg.setdefault('macros', {})['mvu'] = [{'instructions': ['nop']}]
    elif fault == 'zone_inverted':
        cfg.setdefault('predefined', {}).setdefault('memory_zones', []).append({'name': 'badz', 'start': 20, 'end': 10})
    elif fault == 'zone_beyond_width':
        cfg.setdefault('predefined', {}).setdefault('memory_zones', []).append({'name': 'bigz', 'start': 20, 'end': 70000})
    elif fault == 'zone_end_is_space_size':
        cfg.setdefault('predefined', {}).setdefault('memory_zones', []).append({'name': 'edgez', 'start': 20, 'end': 65536})
    elif fault == 'global_beyond_width':
        zs = [z for z in cfg.setdefault('predefined', {}).setdefault('memory_zones', []) if z['name'] != 'GLOBAL']
        cfg['predefined']['memory_zones'] = zs + [{'name': 'GLOBAL', 'start': 0, 'end': 65536}]
    else:
        raise ValueError(fault)


def build(e):
    s = e['s']
    cfg = base(s['shape'])
    src = 'nop\nld 5\n'
    name = 'isa.yaml'
    if s['kind'] == 'def':
        inject(cfg, s['fault'])
        if s['shape'] == 'json':
            name = 'isa.json'
    elif s['kind'] == 'minver':
        cfg['general']['min_version'] = vtext(s['v'])
    elif s['kind'] == 'requiredef':
        cfg['general'].pop('identifier', None)
        name = 'gen.isa.v2.yaml'
        lang = {'same': 'gen.isa.v2', 'prefix': 'gen', 'other': 'gen.isa', 'longer': 'gen.isa.v2.yaml'}[s['name']]
        src = f'#require "{lang}"\n' + src
    else:
        cfg['general']['identifier'] = {'name': 'genisa', 'version': vtext(s['iv'])}
        lang = {'same': 'genisa', 'other': 'otherisa', 'prefix': 'gen', 'suffix': 'isa', 'infix': 'enis', 'longer': 'genisa2', 'empty': ''}[s['name']]
        # blanks around the comparison operator of a requirement carry no meaning: four layouts in rotation
        g1, g2 = [(' ', ' '), ('', ''), (' ', ''), ('  ', '  ')][len(json.dumps(s, sort_keys=True)) % 4]
        req = f'#require "{lang}{g1}{s["op"]}{g2}{vtext(s["v"])}"' if s['op'] else f'#require "{lang}"'
        src = ('#require "genisa"\n' if s['kind'] == 'require2' else '') + req + '\n' + src
    text = json.dumps(cfg, indent=1) if name.endswith('.json') else isagen.dump(cfg)
    return {'config': text, 'config_name': name, 'files': {'main.asm': src}}


def evaluate(e):
    case = build(e)
    obs = runner.run_case(case)
    if obs['status'] == 'timeout':
        return {'m': 'did not terminate', 'case': case}
    if e['ok'] != (obs['status'] == 'ok'):
        return {'m': f'specification {"accepts" if e["ok"] else "rejects"}, implementation {obs["status"]}: {(obs.get("msg") or "")[:160]}', 'case': case}
    return None


def load_config(path):
    def go():
        runner.import_repo()
        from bespokeasm.assembler.model import AssemblerModel
        AssemblerModel(path, 0)
    st, msg, _ = runner.guarded(go, 20.0)
    return st, msg


def run(chk):
    quick = chk.tier == 'quick'
    chk.rule = ('spec/Config.tla: scenarios enumerated by TLC - (def) six base definition shapes (minimal, registers, macros, zones, '
                'predefined entities, JSON file) x the fault catalogue of 22 single faults or none; (minver) general.min_version over '
                'release triples from {0,1,2,3,4,9,10,11}^3 and two-component versions, final and a/b/rc pre-releases, against the '
                'running 0.4.3b1 and the minimum 0.3.0; (require) #require lines: 10 required versions x 3 ISA versions x 5 operators '
                'x name match/mismatch and the name-only form. TLC checks ValidateIffWellFormed, SingleFaultRejected, '
                'GateIsVersionOrder (numeric, total, never lexical), OperatorsConsistent. Each scenario is generated as a real '
                'definition (+ program) and must be accepted / rejected as specified. The repository definitions are loaded too: '
                'all must be accepted except the two deliberately malformed test definitions. Non-trivial = every scenario.')
    chk.assumptions = ['accepted = a two-line program assembles with exit 0 under the definition (zones are validated when assembly starts)',
                       'version texts are spelled by checks/c19.vtext (release[.pre]) as PEP 440 / semantic versions']
    res = tlc.run_tlc('MC_Config', 'SPECIFICATION Spec\nCONSTANTS\n  Scenarios <- %s\n' % ('ScQuick' if quick else 'ScThorough')
                      + ''.join(f'INVARIANT {i}\n' for i in INV), workers=16, timeout=3000)
    chk.add_tlc(res)
    outs = runner.pmap(evaluate, res.emits)
    kinds = {}
    for e, r in zip(res.emits, outs):
        chk.traces += 1
        s = e['s']
        kinds[s['kind']] = kinds.get(s['kind'], 0) + 1
        desc = (f'shape {s["shape"]} fault {s["fault"]}' if s['kind'] == 'def' else f'min_version {vtext(s["v"])}' if s['kind'] == 'minver'
                else f'#require name_matches={s["name"]} isa {vtext(s["iv"])} {s["op"]} {vtext(s["v"])}')
        chk.nontriv(desc)
        if r is not None:
            chk.violation(f'{desc}: {r["m"]}', r['case'], {'accepted': e['ok']}, r['m'], {'kind': s['kind'], 'fault': s['fault']})
    chk.notes['scenarios_by_kind'] = kinds
    for k in ('def', 'minver', 'require'):
        ex = [e for e in res.emits if e['s']['kind'] == k]
        e = ex[len(ex) // 3]
        chk.sample({'kind': k, 'scenario': {kk: (vtext(vv) if isinstance(vv, dict) else vv) for kk, vv in e['s'].items()}, 'accepted': e['ok']})
    # repository definitions
    bad = {'test_bad_registers_in_configuratin.yaml', 'test_min_required_version_config.yaml'}
    n = 0
    for path in corpus.corpus_configs():
        st, msg = load_config(path)
        n += 1
        chk.traces += 1
        want_ok = os.path.basename(path) not in bad
        if (st == 'ok') != want_ok:
            chk.violation(f'repository definition {os.path.relpath(path, corpus.REPO)}: {"rejected" if want_ok else "accepted"}: {(msg or "")[:160]}',
                          {'path': path}, {'accepted': want_ok}, st, {'kind': 'corpus'})
    chk.notes['repository_definitions'] = n
    chk.exhaustive = True
