"""C13 Variant and operand selection follows the documented priority only."""
import random

from harness import runner, tlc, isagen

INV = ['SelectedIsLeastAccepting', 'RegisterNeverNumeric', 'NoAcceptingMeansRejected', 'ValueNeverSelects', 'Emit']
TXT = {'r': 'r1', 'r2': 'r2', '[r]': '[r1]', '[r+n]': '[r1+5]', '[n]': '[5]', '[[n]]': '[[5]]', 'r+n': 'r1+5', 'key': 'kx',
       '++r': '++r1', 'r+key': 'r1+kx', 'void': '', 'bignum': '300', 'num': '5', 'lab': 'lab', '{n}': '{5}', 'hexa': '$a', 'chra': "'a'", 'r++': 'r1++', '@r': '@r1', '-[r]': '-[r1]', 'key+n': 'kx+1', 'keyjunk': 'kx lab'}
VAL = {'bignum': 300, 'num': 5, 'lab': 9, 'key': 7, 'key+n': 8, '{n}': 5, 'hexa': 10, 'chra': 97}


def oname(aid):
    """operand names sort alphabetically in the OPPOSITE order of the ids, so that name order never coincides with definition order"""
    return f'o{1000 - aid}'


def alt_cfg(a):
    aid, ty, off, curly = a
    code = {'value': aid, 'size': 8}
    arg = {'size': 8, 'byte_align': False}
    if ty == 'register':
        return {'type': 'register', 'register': 'r1', 'bytecode': code}
    if ty == 'register_pp':
        return {'type': 'register', 'register': 'r1', 'bytecode': code, 'decorator': {'type': 'plus_plus', 'is_prefix': False}}
    if ty == 'register_prepp':
        return {'type': 'register', 'register': 'r1', 'bytecode': code, 'decorator': {'type': 'plus_plus', 'is_prefix': True}}
    if ty == 'register_at':
        return {'type': 'register', 'register': 'r1', 'bytecode': code, 'decorator': {'type': 'at', 'is_prefix': True}}
    if ty == 'indirect_register_pre':
        return {'type': 'indirect_register', 'register': 'r1', 'bytecode': code, 'decorator': {'type': 'minus', 'is_prefix': True}}
    if ty == 'numeric16':
        return {'type': 'numeric', 'bytecode': code, 'argument': {'size': 16, 'byte_align': False}}
    if ty == 'numeric_va':
        return {'type': 'numeric', 'bytecode': code, 'argument': dict(arg, valid_address=True)}
    if ty == 'indirect_register':
        c = {'type': ty, 'register': 'r1', 'bytecode': code}
        if off:
            c['offset'] = dict(arg)
        return c
    if ty == 'indexed_register2':
        # two index alternatives, listed numeric first: the enumeration (argument 0x33 for the key kx) still has priority for kx
        return {'type': 'indexed_register', 'register': 'r1', 'bytecode': code,
                'index_operands': {f'in{aid}': {'type': 'numeric', 'argument': dict(arg)},
                                   f'ie{aid}': {'type': 'enumeration', 'argument': dict(arg, value_dict={'kx': 0x33, 'ky': 0x44})}}}
    if ty in ('indirect_indexed_register', 'indexed_register'):
        return {'type': ty, 'register': 'r1', 'bytecode': code, 'index_operands': {f'ix{aid}': {'type': 'numeric', 'argument': dict(arg)}}}
    if ty in ('indirect_numeric', 'deferred_numeric', 'numeric', 'address'):
        return {'type': ty, 'bytecode': code, 'argument': dict(arg)}
    if ty == 'enumeration':
        return {'type': ty, 'bytecode': {'size': 8, 'value_dict': {'kx': aid}}, 'argument': dict(arg, value_dict={'kx': 0})}
    if ty == 'enumeration0':
        # no operand code at all: the key is mapped to the argument value 0 (a value like any other), so the emitted byte is 0
        return {'type': 'enumeration', 'argument': {'size': 8, 'byte_align': False, 'value_dict': {'kx': 0, 'ky': 1}}}
    if ty == 'relative_address':
        c = {'type': ty, 'bytecode': code, 'argument': dict(arg)}
        if curly:
            c['use_curly_braces'] = True
        return c
    if ty == 'numeric_bytecode':
        return {'type': ty, 'bytecode': {'size': 8, 'min': 0, 'max': 255}}
    if ty == 'empty':
        return {'type': 'empty', 'bytecode': code}
    raise ValueError(ty)


def build(e, stmts=None):
    isa = e['isa']
    nops = len(e['t'])
    opsets = {}
    variants = []
    for i, v in enumerate(isa):
        ops = {'count': len(v['sets']) if v['sets'] else (len(v['spec'][0]) if v['spec'] else nops)}
        if v['spec']:
            ops['specific_operands'] = {f'sp{j}': {'list': {oname(a[0]): alt_cfg(a) for a in lst}} for j, lst in enumerate(v['spec'])}
        if v['sets']:
            names = []
            for s in v['sets']:
                name = f'set{s[0][0]}'
                opsets[name] = {'operand_values': {oname(a[0]): alt_cfg(a) for a in s}}
                names.append(name)
            ops['operand_sets'] = {'list': names}
            if v['dis']:
                ops['operand_sets']['disallowed_pairs'] = [[oname(x) for x in d] for d in v['dis']]
        variants.append({'bytecode': {'value': 0xA0 + i + 1, 'size': 8}, 'operands': ops})
    ins = dict(variants[0])
    if len(variants) > 1:
        ins['variants'] = variants[1:]
    # a macro whose variants carry the same operand configurations: variant i expands to the marker instruction mk<i>
    macro_variants = [{'operands': v['operands'], 'instructions': [f'mk{i + 1}']} for i, v in enumerate(variants)]
    if not opsets:
        opsets = {'dummy': {'operand_values': {'d': {'type': 'numeric', 'argument': {'size': 8, 'byte_align': True}}}}}
    cfg = {'description': 'generated', 'general': isagen.base_general('big', registers=['r1', 'r2', 'a']), 'operand_sets': opsets,
           'instructions': {'ins': ins}, 'macros': {'mac': macro_variants}}
    for i in range(len(variants)):
        cfg['instructions'][f'mk{i + 1}'] = {'bytecode': {'value': 0xE0 + i + 1, 'size': 8}}
    stmts = stmts if stmts is not None else [e['t']]
    src = 'kx = 7\nlab = 9\n' + ''.join('InS ' + ', '.join(TXT[t] for t in ts) + '\n' for ts in stmts)
    if stmts == [e['t']] and len(str(e['isa'])) % 2 == 1:
        # the definition declares its registers in upper case (R1, R2, A) and the source spells them as declared: nothing else changes
        def up(node):
            if isinstance(node, dict):
                return {k: (v.upper() if k == 'register' and isinstance(v, str) else up(v)) for k, v in node.items()}
            if isinstance(node, list):
                return [up(x) for x in node]
            return node
        cfg = up(cfg)
        cfg['general']['registers'] = [r.upper() for r in cfg['general']['registers']]
        src = src.replace('r1', 'R1').replace('r2', 'R2')
    return isagen.dump(cfg), src


def expected_prefix(e):
    r = e['r']
    out = [0xA0 + r['v']]
    alts = {}
    for v in e['isa']:
        for lst in v['spec']:
            for a in lst:
                alts[a[0]] = a
        for s in v['sets']:
            for a in s:
                alts[a[0]] = a
    texts = list(e['t'])
    tail = []
    for aid in r['ids']:
        t = None if alts[aid][1] == 'empty' else texts.pop(0)
        if alts[aid][1] == 'numeric_bytecode':
            out.append(VAL[t])
        elif alts[aid][1] == 'enumeration0':
            if len(r['ids']) == 1:
                out.append(0)        # no operand code: the byte after the opcode is the argument 0 (with more operands the codes of the others follow first)
        else:
            out.append(aid)
        if alts[aid][1] == 'indexed_register2' and len(r['ids']) == 1:
            tail = [0x33 if t == 'r+key' else 5]          # Match!IndexReading: the key is read by the enumeration index, a number by the numeric one
    return bytes(out + tail)


def evaluate(e):
    isa, src = build(e)
    n = len(expected_prefix(e)) if e['r']['ok'] else 1 + len(e['t'])
    case = {'config': isa, 'files': {'main.asm': src}, 'start': 0, 'end': n - 1}
    obs = runner.run_case(case)
    if obs['status'] == 'timeout':
        return {'m': 'did not terminate', 'case': case}
    if e['r']['ok'] != (obs['status'] == 'ok'):
        return {'m': f'specification {"selects variant %d alternatives %s" % (e["r"]["v"], e["r"]["ids"]) if e["r"]["ok"] else "rejects"}, '
                     f'implementation {obs["status"]} {(obs.get("msg") or "")[:130]} {obs["image"].hex() if obs.get("image") else ""}', 'case': case}
    if e['r']['ok']:
        want = expected_prefix(e)
        if obs['image'] != want:
            return {'m': f'encoding names variant/alternatives {obs["image"].hex()}, priority prescribes {want.hex()} '
                         f'(variant {e["r"]["v"]}, alternatives {e["r"]["ids"]})', 'case': case}
    # the macro with the same variants: chosen by the same rules (the marker byte names the variant)
    msrc = src.replace('InS ', 'mac ')
    mcase = {'config': isa, 'files': {'main.asm': msrc}, 'start': 0, 'end': 0}
    mobs = runner.run_case(mcase)
    sel = e['sel']          # the macro's steps do not use the operands, so only the selection matters (no field has to hold a value)
    if sel['ok'] != (mobs['status'] == 'ok'):
        return {'m': f'as a macro with the same variants: specification {"selects variant %d" % sel["v"] if sel["ok"] else "rejects"}, '
                     f'implementation {mobs["status"]} {(mobs.get("msg") or "")[:120]} {mobs["image"].hex() if mobs.get("image") else ""}', 'case': mcase}
    if sel['ok'] and mobs['image'] != bytes([0xE0 + sel['v']]):
        return {'m': f'as a macro with the same variants: marker {mobs["image"].hex()}, priority prescribes variant {sel["v"]}', 'case': mcase}
    return None


def evaluate_group(group):
    """All scenarios of one ISA: the accepted statements are assembled together in one program, in two different
    orders - which encoding a statement receives must not depend on the statements before it."""
    from harness.render import parse_listing
    acc = [e for e in group if e['r']['ok']]
    if len(acc) < 2:
        return None
    for order in (acc, list(reversed(acc)), acc[1::2] + acc[0::2]):
        isa, src = build(order[0], [e['t'] for e in order])
        case = {'config': isa, 'files': {'main.asm': src}, 'pretty': 'listing'}
        obs = runner.run_case(case)
        if obs['status'] != 'ok':
            return {'m': f'program of individually accepted statements is rejected: {(obs.get("msg") or "")[:150]}', 'case': case}
        rows = [r for r in parse_listing(obs['pretty']) if r['line'] >= 3]
        if len(rows) != len(order):
            return {'m': f'listing has {len(rows)} statement rows for {len(order)} statements', 'case': case}
        for e, row in zip(order, rows):
            want = list(expected_prefix(e))
            if row['bytes'][:len(want)] != want:
                return {'m': f'statement "{row["instr"]}" after {order.index(e)} other statements is encoded {bytes(row["bytes"]).hex()}, '
                             f'priority prescribes {bytes(want).hex()}..', 'case': case}
    return None


def run(chk):
    quick = chk.tier == 'quick'
    rng = random.Random(chk.seed + 13)
    chk.rule = ('spec/Match.tla: TLC builds deliberately ambiguous ISAs - up to MaxVariants variants from a pool (specific operand '
                'lists of 0-2 entries + an operand set from a catalogue of nine sets whose alternatives overlap in what they '
                'accept and are defined in an order different from their rank; two-operand variants with disallowed pairs) - '
                'for every operand text class (register, other register, [r], [r+n], [n], [[n]], r+n, enumeration key, number, '
                'label, {n}). TLC checks SelectedIsLeastAccepting (nested loops = declarative least accepting choice), '
                'RegisterNeverNumeric, NoAcceptingMeansRejected. Every alternative carries its id as operand code and every '
                'variant its index as opcode, so the emitted bytes name the choice: an ISA definition is generated per scenario, '
                'the statement (mnemonic in mixed case) assembled, and accept/reject and the naming bytes compared; all statements an ISA accepts are also assembled together in three different orders (the encoding must not depend on earlier statements); operand names sort alphabetically opposite to their definition order. '
                'Non-trivial = scenarios where at least two alternatives or variants accept the text.')
    chk.assumptions = ['the acceptance predicate Acc of each operand type over the text classes is part of the specification (derived from the operand syntax)',
                       'disallowed pairs are checked after the first accepting alternative per position is chosen (no backtracking), as the statement says "skipped"']
    # (three one-operand variants out of a pool of 165 are 117 million scenarios: beyond two variants the space is sampled by TLC's simulator)
    plan = [('one-operand', 'Pool1', 'Texts1', 2, None), ('two-operand', 'Pool2', 'Texts2', 1 if quick else 2, None)]
    if not quick:
        plan.append(('one-operand-three-variants-simulated', 'Pool1', 'Texts1', 3, 'num=300'))     # the simulator evaluates Emit on every successor it generates: about 500 scenarios per behaviour
    for tag, pool, texts, mv, sim in plan:
        res = tlc.run_tlc('MC_Match', f'SPECIFICATION Spec\nCONSTANTS\n  VariantPool <- {pool}\n  TextTuples <- {texts}\n  MaxVariants = {mv}\n'
                          + ''.join(f'INVARIANT {i}\n' for i in INV), workers=16 if sim is None else 1, timeout=3000, simulate=sim, depth=(mv + 2) if sim else None,
                          seed=chk.seed if sim else None)
        chk.add_tlc(res)
        emits = res.emits
        if sim:
            # the simulator meets the same (definition, operand texts) scenario in several behaviours: keep each once
            uniq = {}
            for e in emits:
                uniq.setdefault((str(e['isa']), str(e['t'])), e)
            emits = list(uniq.values())
        cap = 14000 if quick else 120000
        if len(emits) > cap:
            # every scenario in which a value decides the statement's fate after selection, and a seeded sample of the others
            rare = lambda e: e['r'] != e['sel'] or 'r+key' in e['t'] or '++r' in e['t'] or 'r++' in e['t']
            keep = [e for e in emits if rare(e)]
            rng.shuffle(keep)
            rest = [e for e in emits if not rare(e)]
            emits = keep[:cap // 2] + rng.sample(rest, cap - min(len(keep), cap // 2))
        chk.notes.setdefault('instances', []).append({'tag': tag, 'enumerated': len(res.emits), 'replayed': len(emits)})
        outs = runner.pmap(evaluate, emits)
        for e, r in zip(emits, outs):
            chk.traces += 1
            if e['r']['ok']:
                chk.nontriv((tag, str(e['isa']), str(e['t'])))
            if r is not None:
                chk.violation(f'{r["m"]} | operands {e["t"]} | ISA variants {e["isa"]}', r['case'], e['r'], r['m'], {'kind': tag})
        groups = {}
        for e in emits:
            groups.setdefault(str(e['isa']), []).append(e)
        glist = [g for g in groups.values() if len([e for e in g if e['r']['ok']]) >= 2]
        gouts = runner.pmap(evaluate_group, glist)
        for g, r in zip(glist, gouts):
            chk.traces += 3
            if r is not None:
                chk.violation(f'{r["m"]} | ISA variants {g[0]["isa"]}', r['case'], None, r['m'], {'kind': tag + '-history'})
        chk.notes['instances'][-1]['isa_groups_multi_statement'] = len(glist)
        ok = [e for e in emits if e['r']['ok'] and e['r']['v'] >= 1]
        if ok:
            e = ok[len(ok) // 2]
            chk.sample({'instance': tag, 'operand_texts': [TXT[t] for t in e['t']], 'variants': e['isa'], 'selected': e['r']})
    chk.exhaustive = not quick
