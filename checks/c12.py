"""C12 Configured operand value constraints are enforced, not silently bypassed."""
from harness import runner, tlc, isagen
from checks import widepart

NONE = -9999
INV = ['RejectIffInadmissible', 'WidthRange', 'FieldFits', 'Emit']


def num(v):
    return str(v) if v >= 0 else f'0{v}'


def build(s):
    """scenario -> (isa text, source text, instruction address, bit offset of the field, field width)."""
    k, w = s['kind'], s['w']
    general = isagen.base_general('big', registers=['a'])
    pre = {}
    opsets = {}
    src_pre = ''
    addr = 0
    opw = 8
    extra_ops = []
    wrap = '%s'
    if k == 'width':
        opsets['s1'] = {'operand_values': {'o1': {'type': 'numeric', 'argument': {'size': w, 'byte_align': False}}}}
    elif k == 'minmax':
        opw = 4
        opsets['s1'] = {'operand_values': {'o1': {'type': 'numeric_bytecode', 'bytecode': {'size': w, 'min': s['lo'], 'max': s['hi']}}}}
    elif k == 'rel':
        arg = {'size': w, 'byte_align': False}
        if s['lo'] != NONE:
            arg['min'] = s['lo']
        if s['hi'] != NONE:
            arg['max'] = s['hi']
        o = {'type': 'relative_address', 'argument': arg}
        if s['flag']:
            o['offset_from_instruction_end'] = True
        opsets['s1'] = {'operand_values': {'o1': o}}
        opw = 12 if w == 4 else 8
        if s['size'] == 3:
            opsets['s2'] = {'operand_values': {'o2': {'type': 'numeric', 'argument': {'size': 8, 'byte_align': False}}}}
            extra_ops = ['85']
        addr = s['addr']
    elif k == 'enum':
        opsets['s1'] = {'operand_values': {'o1': {'type': 'numeric_enumeration',
                                                  'argument': {'size': w, 'byte_align': False, 'value_dict': {s['lo']: 1, s['hi']: 2, s['size']: 3}}}}}
    elif k == 'zone':
        if s['lo'] == 1:
            pre['memory_zones'] = [{'name': 'zone1', 'start': s['zs'], 'end': s['ze']}]
            opsets['s1'] = {'operand_values': {'o1': {'type': 'address', 'argument': {'size': w, 'byte_align': False, 'memory_zone': 'zone1'}}}}
        else:
            pre['memory_zones'] = [{'name': 'GLOBAL', 'start': s['zs'], 'end': s['ze']}]
            general['origin'] = s['zs']
            addr = s['zs']
            if s['lo'] == 2:
                opsets['s1'] = {'operand_values': {'o1': {'type': 'numeric', 'argument': {'size': w, 'byte_align': False, 'valid_address': True}}}}
            elif s['lo'] in (4, 5):
                opsets['s1'] = {'operand_values': {'o1': {'type': 'indirect_numeric' if s['lo'] == 4 else 'deferred_numeric',
                                                          'argument': {'size': w, 'byte_align': False, 'valid_address': True}}}}
                wrap = ('[%s]', '[[%s]]')[s['lo'] - 4]
            else:
                opsets['s1'] = {'operand_values': {'o1': {'type': 'address', 'argument': {'size': w, 'byte_align': False}}}}
    elif k == 'slice':
        opw = 4 if w == 4 else 8
        opsets['s1'] = {'operand_values': {'o1': {'type': 'address', 'argument': {'size': w, 'byte_align': False, 'slice_lsb': True,
                                                                                 'match_address_msb': True}}}}
        addr = s['addr']
    ins = {'bytecode': {'value': (1 << opw) - 3, 'size': opw},
           'operands': {'count': 1 + len(extra_ops), 'operand_sets': {'list': ['s1'] + (['s2'] if extra_ops else [])}}}
    cfg = {'description': 'generated', 'general': general, 'operand_sets': opsets, 'instructions': {'ins': ins}}
    if pre:
        cfg['predefined'] = pre
    org = f'.org {addr}\n' if (k in ('rel', 'slice')) else ''
    src = org + 'ins ' + ', '.join([wrap % num(s['v'])] + extra_ops) + '\n'
    return isagen.dump(cfg), src, addr, opw, w


def evaluate(e, _second=None):
    s = e['s']
    isa, src, addr, off, w = build(s)
    if _second:
        isa, src = _second
    nbytes = (off + w + (8 if (s['kind'] == 'rel' and s['size'] == 3) else 0) + 7) // 8
    case = {'config': isa, 'files': {'main.asm': src}, 'start': addr, 'end': addr + nbytes - 1}
    obs = runner.run_case(case)
    if obs['status'] == 'timeout':
        return {'m': 'did not terminate', 'case': case}
    if e['ok'] and obs['status'] != 'ok':
        return {'m': f'admissible value rejected: {(obs.get("msg") or "")[:140]}', 'case': case}
    if not e['ok'] and obs['status'] == 'ok':
        return {'m': f'inadmissible value assembled to {obs["image"].hex()}', 'case': case}
    if e['ok']:
        total = int.from_bytes(obs['image'], 'big')
        nb = len(obs['image']) * 8
        field = (total >> (nb - off - w)) & ((1 << w) - 1)
        want = e['f'] & ((1 << w) - 1)
        if field != want:
            return {'m': f'field carries {field}, specification {want} (image {obs["image"].hex()})', 'case': case}
    if not _second and s['kind'] == 'width':
        # the same value as the offset of an indirect register operand, written [r1 + v] or [r1 - |v|]: the same field, the same range
        import yaml
        cfgd = yaml.safe_load(isa)
        cfgd['general']['registers'] = ['r1']
        cfgd['operand_sets']['s1'] = {'operand_values': {'o1': {'type': 'indirect_register', 'register': 'r1', 'offset': {'size': w, 'byte_align': False}}}}
        v = s['v']
        isrc = f'ins [r1 + {v}]\n' if v >= 0 else f'ins [r1 - {-v}]\n'
        r2 = evaluate(e, _second=(isagen.dump(cfgd), isrc))
        if r2 is not None:
            r2['m'] = 'as the offset of an indirect register operand: ' + r2['m']
            return r2
    if not _second and s['kind'] in ('enum', 'minmax', 'width', 'zone'):
        # the constraint is on the operand's VALUE: the same value written as a product, a quotient, a shift or a masked expression
        v = s['v']
        style = len(str(sorted(s.items()))) % 4
        mag = abs(v)
        body = (f'{mag}*1', f'{2 * mag}/2', f'{mag}|0', f'{mag * 4}>>2')[style]
        text = body if v >= 0 else f'0-{body}' if style in (0, 1) else f'0-({body})'
        plain = src.split('\n')[-2]
        if plain.endswith(num(v)):        # (bracketed operands take only sums and differences between their brackets: left as written)
            respelled = plain[::-1].replace(num(v)[::-1], text[::-1], 1)[::-1]
            r2 = evaluate(e, _second=(isa, '\n'.join(src.split('\n')[:-2] + [respelled, ''])))
            if r2 is not None:
                r2['m'] = f'the same value written "{text}": ' + r2['m']
                return r2
    if not _second:
        # the same statement inside a muted stretch: its bytes are not emitted but its constraints still hold
        lines = src.split('\n')
        msrc = '\n'.join(lines[:-2] + ['#mute', lines[-2], '#emit', ''])
        mobs = runner.run_case({'config': isa, 'files': {'main.asm': msrc}})
        if mobs['status'] == 'timeout':
            return {'m': 'muted: did not terminate', 'case': {'config': isa, 'files': {'main.asm': msrc}}}
        if e['ok'] != (mobs['status'] == 'ok'):
            return {'m': f'inside #mute .. #emit the statement is {"accepted" if mobs["status"] == "ok" else "rejected"}, '
                         f'the value is {"admissible" if e["ok"] else "inadmissible"}: {(mobs.get("msg") or "")[:100]}',
                    'case': {'config': isa, 'files': {'main.asm': msrc}}}
    if s['kind'] in ('rel', 'slice') and addr >= 3 and not _second:
        # the same statement as the second step of a macro (after a 3-byte step): its own address is still addr
        import yaml
        cfgd = yaml.safe_load(isa)
        cfgd['instructions']['pad3'] = {'bytecode': {'value': 0xEEEEEE, 'size': 24}}
        stmt = src.split('\n')[1]
        cfgd['macros'] = {'wrapm': [{'instructions': ['pad3', stmt, 'pad3']}]}
        r2 = evaluate(e, _second=(isagen.dump(cfgd), f'.org {addr - 3}\nwrapm\n'))
        if r2 is not None:
            r2['m'] = 'as the second step of a macro: ' + r2['m']
        return r2
    return None


def run(chk):
    quick = chk.tier == 'quick'
    chk.rule = ('spec/Constraints.tla: scenarios (kind, parameters, value, instruction address/size) enumerated by TLC: field '
                'widths 1..9 with ALL values in [-2^w-2, 2^w+2] and 12/16/20 around every boundary; every (min,max) of a grid '
                'x values on and next to each bound; relative offsets from the instruction address and from its last byte '
                '(instruction sizes 2 and 3, with/without min/max, 4- and 8-bit fields, field-range boundaries); numeric '
                'enumerations; zone membership for address / valid_address operands at start-1, start, end, end+1 under a '
                'predefined zone and a redefined GLOBAL; sliced addresses on both sides of page boundaries (relative and sliced operands also as the second step of a macro, where the statement has an address of its own; every statement also inside #mute .. #emit, where nothing is emitted but the constraint still decides acceptance; valid_address also on indirect and deferred numeric operands; width / min-max / enumeration / zone scenarios also with the value written as a product, quotient, or-expression or shift - the constraint is on the value, not its spelling). TLC checks '
                'RejectIffInadmissible (ordered checks = declarative admissible set), WidthRange, FieldFits. For every '
                'scenario an ISA definition and a statement are generated and assembled: accept/reject must agree and the '
                "operand's field, extracted from the image, must carry the specified value. Widths 10..64 are covered by seeded boundary-biased records validated by spec/Trace_Pack.tla on bit strings. Non-trivial = every scenario "
                '(distinct by parameters and value).')
    chk.assumptions = ['slice_lsb without match_address_msb is left open', 'the field is extracted from the image at the bit offset the layout prescribes (C01)']
    res = tlc.run_tlc('MC_Constraints', 'SPECIFICATION Spec\nCONSTANTS\n  Scenarios <- %s\n' % ('ScQuick' if quick else 'ScThorough')
                      + ''.join(f'INVARIANT {i}\n' for i in INV), workers=16)
    chk.add_tlc(res)
    outs = runner.pmap(evaluate, res.emits)
    kinds = {}
    for e, r in zip(res.emits, outs):
        chk.traces += 1
        s = e['s']
        kinds[s['kind']] = kinds.get(s['kind'], 0) + 1
        chk.nontriv(str(sorted(s.items())))
        if r is not None:
            chk.violation(f'{s["kind"]} w={s["w"]} lo={s["lo"]} hi={s["hi"]} addr={s["addr"]} size={s["size"]} fromEnd={s["flag"]} '
                          f'zone={s["zs"]}..{s["ze"]} value={s["v"]}: {r["m"]}', r['case'], {'admissible': e['ok'], 'field': e['f']}, r['m'],
                          {'kind': s['kind']})
    chk.notes['scenarios_by_kind'] = kinds
    for k in ('rel', 'slice', 'width'):
        ex = [e for e in res.emits if e['s']['kind'] == k]
        if ex:
            chk.sample({'scenario': ex[len(ex) // 2]['s'], 'admissible': ex[len(ex) // 2]['ok'], 'field': ex[len(ex) // 2]['f']})
    # widths up to 64 bits: accept iff every value lies in -2^(w-1) .. 2^w - 1 (bit-string specification)
    widepart.run_wide(chk, 4000 if quick else 80000, boundary_bias=0.7)
    chk.exhaustive = True
