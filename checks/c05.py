"""C05 Memory zones confine and sequence the code assigned to them."""
from harness import asmcheck

WHAT = ['status', 'image', 'addr']
KINDS = {'zone', 'orgz', 'mkzone', 'org', 'incb', 'lzone', 'lorgz', 'lorg'}
A = {'addr_bits': 5, 'origin': 0, 'page_size': 4, 'pre_zones_op': 'ZonesA', 'pre_zones': [('z1', 8, 11), ('z2', 10, 13)]}
B = {'addr_bits': 5, 'origin': 4, 'page_size': 4, 'pre_zones_op': 'ZonesB',
     'pre_zones': [('GLOBAL', 4, 15), ('z1', 6, 9), ('z2', 14, 17)]}


TOP = {'addr_bits': 5, 'origin': 0, 'page_size': 4, 'pre_zones_op': 'ZonesTop', 'pre_zones': [('z1', 28, 31)]}


def instances(tier):
    # the top of the address space: exact fills of GLOBAL and of a zone ending on the last address, one byte more, and
    # definitions (predefined and #create_memzone) that end one beyond the last address
    yield 'top-len4', dict(TOP, max_len=4 if tier == 'quick' else 5), 'AlphaC05top', None
    yield 'predefined-zone-beyond', dict(TOP, max_len=1, pre_zones_op='ZonesBeyond', pre_zones=[('z1', 28, 32)]), 'AlphaC05top', None
    yield 'predefined-global-beyond', dict(TOP, max_len=1, pre_zones_op='GlobalBeyond', pre_zones=[('GLOBAL', 0, 32)]), 'AlphaC05top', None
    yield 'zone-named-Global', dict(A, max_len=4 if tier == 'quick' else 5, pre_zones_op='ZonesCase', pre_zones=[('z4', 20, 25)]), 'AlphaC05case', None
    yield 'include-len5', dict(A, max_len=5 if tier == 'quick' else 6, emit_inv='EmitInc'), 'AlphaC05inc', None
    yield 'label-in-front-len4', dict(A, max_len=4 if tier == 'quick' else 5), 'AlphaC05lab', None
    yield 'mute-len4', dict(A, max_len=4 if tier == 'quick' else 5), 'AlphaC05mute', None
    if tier == 'quick':
        yield 'A-len3', dict(A, max_len=3), 'AlphaC05', None
        yield 'B-len3', dict(B, max_len=3), 'AlphaC05', None
        yield 'A-sim7', dict(A, max_len=7), 'AlphaC05', 'num=1500'
        yield 'B-sim7', dict(B, max_len=7), 'AlphaC05', 'num=1500'
    else:
        yield 'A-len4', dict(A, max_len=4), 'AlphaC05', None
        yield 'B-len4', dict(B, max_len=4), 'AlphaC05', None
        yield 'A-sim9', dict(A, max_len=9), 'AlphaC05', 'num=20000'
        yield 'B-sim9', dict(B, max_len=9), 'AlphaC05', 'num=20000'


def run(chk):
    chk.rule = ('two zone layouts in a 5-bit address space (A: default GLOBAL, predefined z1=8..11 and z2=10..13 overlapping; '
                'B: GLOBAL redefined to 4..15 with origin 4, z1=6..9 inside, z2=14..17 partly outside) x every program up to '
                'MaxLen lines over AlphaC05 (zone switches, zone-relative / GLOBAL-relative / bare origins, fills ending at, '
                'one past and two past a zone end, #create_memzone with contained / not contained / duplicate / inverted / '
                'too wide zones, include brackets). TLC checks InsideZoneAndGlobal and Contiguity (per-zone concatenation); '
                'the real code is compared on accept/reject, per-line address and image. Non-trivial = has a zone, origin, '
                'create-zone or include line.')
    chk.assumptions = ['included files are rendered as separate files; an include inside an unselected branch is not generated here']
    chk.exhaustive = True
    asmcheck.run_instances(chk, instances(chk.tier), WHAT, KINDS)
