"""C03 The binary image is a faithful window onto the assembled memory map."""
from harness import asmcheck
from checks import tracepart

WHAT = ['status', 'image']
KINDS = {'byte', 'fill', 'i3'}
BASE = {'addr_bits': 16, 'origin': 0, 'page_size': 4, 'pre_zones_op': 'ZonesA', 'pre_zones': [('z1', 8, 11), ('z2', 10, 13)],
        'pre_data_op': 'DataA', 'pre_data': [('pd1', 6, 85, 2)]}


def windows(tier):
    if tier == 'quick':
        return [(0, None, 0), (2, None, 234), (1, 3, 0), (3, 9, 234), (7, 7, 0), (9, 8, 0), (0, 12, 255), (12, None, 0), (0, 0, 234)]
    ws = [(s, None, f) for s in range(0, 14, 1) for f in (0, 234)][:20]
    ws += [(s, e, 234 if (s + e) % 2 else 0) for s in range(0, 11) for e in range(max(s - 1, 0), 13)]
    return ws


def instances(tier):
    n = 0
    for (s, e, f) in windows(tier):
        n += 1
        yield f'win{s}-{e}-{f}', dict(BASE, max_len=3 if tier == 'quick' else 3, win_start=s, win_end=e, fill=f, cli_sample=24 if tier == 'quick' else 60), 'AlphaC03', None
    # a window that extends beyond the address space (5-bit addresses, GLOBAL = 0..31) and beyond a redefined GLOBAL
    yield 'beyond-space', dict(BASE, addr_bits=5, max_len=2 if tier == 'quick' else 3, win_start=27, win_end=38, fill=170), 'AlphaC03', None
    yield 'beyond-global', dict(BASE, addr_bits=16, max_len=2 if tier == 'quick' else 3, win_start=10, win_end=25, fill=0, origin=4,
                                pre_zones_op='ZonesB', pre_zones=[('GLOBAL', 4, 15), ('z1', 6, 9), ('z2', 14, 17)]), 'AlphaC03', None
    # no end given and no predefined data: the image ends at the highest address that received a byte - a zero-length line above a gap
    # (an origin followed by an empty fill) has an address but no byte
    for s0 in (0, 1):
        yield f'auto-end-nodata-{s0}', dict({'addr_bits': 16, 'origin': 0, 'page_size': 4, 'pre_zones_op': 'ZonesA', 'pre_zones': [('z1', 8, 11), ('z2', 10, 13)]},
                                           max_len=3 if tier == 'quick' else 4, win_start=s0, win_end=None, fill=170), 'AlphaC03', None
    # lines of more than 16 bytes, at every console verbosity (what is printed must not change what is written)
    for v in (0, 1, 2, 3):
        yield f'long-verbosity{v}', dict({'addr_bits': 16, 'origin': 0, 'page_size': 4}, max_len=3 if tier == 'quick' else 4, win_start=2, win_end=None if v % 2 else 70, fill=170, verbose=v), 'AlphaC03long', None
    yield 'mute-conditional', dict({'addr_bits': 16, 'origin': 0, 'page_size': 4}, max_len=5 if tier == 'quick' else 6, win_start=0, win_end=7, fill=234), 'AlphaC03cond', None
    # muting that has to carry across two levels of #include, seen through a window with a non-zero fill
    yield 'mute-includes', dict({'addr_bits': 16, 'origin': 0, 'page_size': 4}, max_len=6 if tier == 'quick' else 7, win_start=0, win_end=6, fill=234, emit_inv='EmitInc'), 'AlphaC17mute', None
    if tier == 'quick':
        yield 'sim7', dict(BASE, max_len=7, win_start=3, win_end=10, fill=170), 'AlphaC03', 'num=3000'
    else:
        for (s, e, f) in [(0, None, 0), (2, None, 234), (3, 9, 17), (1, 5, 0), (6, 12, 255)]:
            yield f'len4-win{s}-{e}', dict(BASE, max_len=4, win_start=s, win_end=e, fill=f), 'AlphaC03', None
        yield 'sim9', dict(BASE, max_len=9, win_start=3, win_end=14, fill=170), 'AlphaC03', 'num=20000'


def run(chk):
    chk.rule = ('for each window (start, end|none, fill) TLC enumerates every program up to MaxLen lines over AlphaC03 (data of '
                '1,3,4 bytes, fills incl. zero-length, origins, muted regions, zone switch, alignment, trailing label, a '
                'predefined data block at 6..7) and checks WindowFaithful and MemIsUnmutedBytes on the specification; every '
                'scenario is assembled by the real code with -s/-e/-f and the whole image compared byte for byte (a sample of every window also through the command line front end); AlphaC03long (fills of 18 and 33 bytes) is run at verbosity 0..3. '
                'Non-trivial = contains a byte-producing line; distinct by (program, window).')
    chk.rule += (' Code -> specification: the repository example programs (real ISAs, up to 36 KB images) and seeded random rich '
                 'carrier programs are assembled with the verification hooks on; every recorded pass-1 / pass-2 event and the image read '
                 'back from the .bin must be a behaviour of spec/Trace_Asm.tla (address = zone cursor | origin | AlignUp, size, cursor '
                 'after, zone bounds, label value, stable sort order, bytes = reserved size, overlap check, window onto the unmuted '
                 'bytes); corrupted traces must be rejected (self-test).')
    chk.assumptions = ['overlaps involving a muted line are left open and skipped (counted in skipped_open_cases)']
    chk.exhaustive = True
    asmcheck.run_instances(chk, instances(chk.tier), WHAT, KINDS)
    tracepart.run_traces(chk, 'C03', windows=True)
