"""C07 Numeric expressions evaluate to their arithmetic value."""
import random

from harness import runner, tlc
from harness.carrier import carrier_yaml

INV = ['DescentEqualsSplit', 'LeftAssoc', 'UnaryBindsTightest', 'Emit']
TEXT = {'lsb': 'LSB(', 'byte0': 'BYTE0(', 'byte1': 'BYTE1(', 'byte2': 'BYTE2(', '!': '!'}
HEXD = '0123456789abcdeF'


def expr_cfg(tokens, maxlen, guided):
    return ('SPECIFICATION Spec\nCONSTANTS\n  Tokens <- %s\n  MaxLen = %d\n  Guided = %s\n' % (tokens, maxlen, 'TRUE' if guided else 'FALSE')
            + ''.join(f'INVARIANT {i}\n' for i in INV))


def tok_text(t, v):
    if t == 'n':
        return str(v)
    if t == 'L':
        return f'lab{v}'
    return TEXT.get(t, t)


# spellings of the junk token: characters that belong to no token when they stand alone (always written with blanks around them,
# so that they cannot join a neighbour into a literal such as $3 or .name)
JUNK = ['!', '@', ' $ ', ' . ', " ' ", '?', '~', ' " ', ' 0x ', ' # ']


def render(tokens, compact=False):
    parts = [(JUNK[(i + len(tokens)) % len(JUNK)] if t == '!' else tok_text(t, v)) for i, (t, v) in enumerate(tokens)]
    if not compact:
        return ' '.join(parts)
    out = ''
    for p in parts:
        if out and (p == '%' or out.endswith('%') or (out[-1].isalnum() and p[0].isalnum())):
            out += ' '
        out += p
    return out


def lit_text(n, ds):
    if n == 'chr':
        return "'" + chr(ds[0]) + "'"
    digs = ''.join(HEXD[d] for d in ds)
    return {'dec': digs, 'dollar': '$' + digs, '0x': '0x' + digs, 'H': digs + 'H', 'pct': '%' + digs, 'b': 'b' + digs}[n]


def eval_texts(texts):
    """Worker: evaluate a list of expression texts with the real parser. Returns list of ('v', int) | ('E', msg)."""
    runner.import_repo()
    from bespokeasm.expression import parse_expression
    from bespokeasm.assembler.label_scope import GlobalLabelScope
    from bespokeasm.assembler.line_identifier import LineIdentifier
    scope = GlobalLabelScope(set())
    lid = LineIdentifier(1, 'expr')
    for k in (6, 5):
        scope.set_label_value(f'lab{k}', k, lid)
    out = []
    for tx in texts:
        try:
            with runner.watchdog(5.0):
                out.append(('v', parse_expression(lid, tx).get_value(scope, lid)))
        except runner.Watchdog:
            out.append(('T', 'timeout'))
        except BaseException as e:  # SystemExit, SyntaxError, ZeroDivisionError ... = rejected
            out.append(('E', f'{type(e).__name__}: {str(e)[:80]}'))
    return out


def chunks(xs, n):
    for i in range(0, len(xs), n):
        yield xs[i:i + n]


def compare(chk, items, tag):
    """items: list of (text, expected 'E'|'U'|'B'|int-string, tokens)."""
    texts = [it[0] for it in items]
    res = []
    for r in runner.pmap(eval_texts, list(chunks(texts, 2000)), chunksize=1):
        res.extend(r)
    for (tx, exp, toks), (kind, val) in zip(items, res):
        chk.traces += 1
        if exp in ('U', 'B'):
            chk.skipped += 1
            continue
        if exp != 'E':
            chk.nontriv(tx)
        if kind == 'T':
            chk.violation(f'evaluation of "{tx}" did not terminate', {'expr': tx}, exp, 'timeout', {'kind': 'hang'})
        elif exp == 'E':
            if kind == 'v':
                chk.violation(f'"{tx}" is not a well-formed expression (or has no value) but evaluates to {val} [{tag}]',
                              {'expr': tx, 'tokens': toks}, 'rejected', val, {'kind': 'accepts-malformed'})
        else:
            if kind != 'v':
                chk.violation(f'"{tx}" should evaluate to {exp} but is rejected: {val} [{tag}]', {'expr': tx, 'tokens': toks}, int(exp), val,
                              {'kind': 'rejects-wellformed'})
            elif val != int(exp):
                chk.violation(f'"{tx}" should evaluate to {exp} but evaluates to {val} [{tag}]', {'expr': tx, 'tokens': toks}, int(exp), val,
                              {'kind': 'wrong-value'})


BIGLITS = [2 ** 53 + 1, 2 ** 64 - 1, 2 ** 63, 10 ** 18 + 9, 3, 7, 2, 1, 2 ** 32 + 1, 49, 0xFFFFFFFFFFFFFFFE, 0, 6700417, 2 ** 53, 0x20000000000001 * 3]


def limbs(n):
    out = []
    while n:
        out.append(n & 32767)
        n >>= 15
    return out


def big_gen(rng, d):
    if d == 0 or rng.random() < 0.3:
        return [('n', rng.choice(BIGLITS))]
    c = rng.random()
    if c < 0.15:
        return ([('-', 0)] + big_gen(rng, d - 1)) if rng.random() < 0.5 else ([('-', 0), ('(', 0)] + big_gen(rng, d - 1) + [(')', 0)])
    if c < 0.3:
        return [('(', 0)] + big_gen(rng, d - 1) + [(')', 0)]
    return big_gen(rng, d - 1) + [(rng.choice('+-*/'), 0)] + big_gen(rng, d - 1)


def big_text(toks, style):
    def num(v):
        return str(v) if style % 3 == 0 else (f'${v:x}' if style % 3 == 1 else f'0x{v:X}')
    return ' '.join(num(v) if t == 'n' else t for t, v in toks)


def big_batch(args):
    seed, n = args
    runner.import_repo()
    from bespokeasm.expression import parse_expression
    from bespokeasm.assembler.line_identifier import LineIdentifier
    lid = LineIdentifier(1, 'big')
    rng = random.Random(seed)
    out = []
    for i in range(n):
        toks = big_gen(rng, rng.choice([2, 3, 3, 4]))
        tx = big_text(toks, i)
        try:
            with runner.watchdog(20.0):
                v = parse_expression(lid, tx).get_value(None, lid)
            ok = True
        except BaseException:
            v, ok = 0, False
        out.append({'toks': [{'t': t, 'm': limbs(val) if t == 'n' else []} for t, val in toks], 'v': {'neg': v < 0, 'm': limbs(abs(v))},
                    'ok': ok, 'text': tx, 'value': v})
    return out


def big_part(chk, n_total):
    import json
    import os
    import tempfile
    recs = []
    for r in runner.pmap(big_batch, [(chk.seed * 77 + i, n_total // 16) for i in range(16)], chunksize=1):
        recs.extend(r)
    slim = [{k: r[k] for k in ('toks', 'v', 'ok')} for r in recs]
    good = next((i for i, r in enumerate(recs) if r['ok'] and r['value'] > 5), None)
    bad_idx = None
    if good is not None:
        bad = json.loads(json.dumps(slim[good]))
        bad['v']['m'] = limbs(recs[good]['value'] + 1)
        slim.append(bad)
        bad_idx = len(slim)
    fd, path = tempfile.mkstemp(prefix='vbig_', suffix='.json', dir=runner.SCRATCH_ROOT)
    with os.fdopen(fd, 'w') as f:
        json.dump(slim, f)
    try:
        res = tlc.run_tlc('BigExpr', 'SPECIFICATION Spec\nINVARIANT Accepted\n', workers=16, env={'TRACE_FILE': path}, timeout=3000)
    finally:
        os.unlink(path)
    chk.add_tlc(res)
    acc = {a['t'] for a in res.tags.get('ACC', [])}
    if bad_idx is not None and bad_idx in acc:
        chk.machinery('BigExpr accepted a record whose value was changed by one')
    for i, r in enumerate(recs, start=1):
        chk.traces += 1
        chk.nontriv(('big', r['text']))
        if i not in acc:
            chk.violation(f'"{r["text"]}" {"evaluates to " + str(r["value"]) if r["ok"] else "is rejected"}: not the exact quotient arithmetic truncated toward zero (BigExpr.tla)',
                          {'expr': r['text']}, 'BigExpr.RecOk', r['value'] if r['ok'] else 'rejected', {'kind': 'big'})
    chk.notes['big_values'] = {'records': len(recs), 'rejected_by_implementation': sum(1 for r in recs if not r['ok']),
                               'off_by_one_record_rejected': bad_idx is not None and bad_idx not in acc}
    ex = [r for r in recs if r['ok'] and abs(r['value']) > 2 ** 60]
    if ex:
        chk.sample({'instance': 'big values (limb arithmetic)', 'text': ex[0]['text'], 'value': ex[0]['value']})


def run(chk):
    quick = chk.tier == 'quick'
    rng = random.Random(chk.seed + 7)
    chk.rule = ('spec/Expr.tla: TLC enumerates token strings and checks DescentEqualsSplit (recursive-descent machine = '
                'declarative split at the last depth-0 operator of the loosest level), LeftAssoc, UnaryBindsTightest. '
                'Instances: ALL strings up to length L over a core alphabet (malformed strings included), and GUIDED instances '
                '(only viable prefixes, hence all well-formed expressions) to greater length over three alphabets covering every '
                'operator, unary minus, LSB/BYTEn, labels, junk. spec/Literals.tla enumerates digit strings in every notation; each literal is also re-spelled with a blank at every interior position (two adjacent tokens: malformed, must be rejected, also right after the literal itself was evaluated in the same process). '
                'Each emitted string is spelled (spaced and compact) and evaluated by the real parse_expression/get_value; a '
                'sample goes end to end through .4byte into the image. spec/BigExpr.tla checks seeded random expressions over 64-bit literals (+ - * / unary minus, parentheses) evaluated by the real code: exact rational value by limb arithmetic, truncation toward zero by |v|*d <= |n| < (|v|+1)*d. Non-trivial = distinct text with a numeric expected value.')
    chk.assumptions = ['% with a negative operand, shifts/bitwise on non-integers or negatives, negative shift counts are left open (skipped)',
                       'values beyond 2^24 in the model are not compared (counted as skipped)',
                       '% is always written with blanks around it (lexically ambiguous with the %binary notation)']
    plan = [('core-all', 'TokCore', 5 if quick else 6, False), ('core-guided', 'TokCore', 7 if quick else 9, True),
            ('wide-guided', 'TokWide', 6 if quick else 7, True), ('mix-guided', 'TokMix', 5 if quick else 6, True),
            ('wide-all', 'TokWide', 3 if quick else 4, False), ('mod-guided', 'TokMod', 7 if quick else 8, True)]
    MALFORMED = []
    OFFSETS = []
    for tag, toks, ml, guided in plan:
        res = tlc.run_tlc('MC_Expr', expr_cfg(toks, ml, guided), workers=16)
        chk.add_tlc(res)
        emits = res.emits
        if len(emits) != (res.distinct - 1 if not guided else len(emits)):
            chk.machinery(f'{tag}: parsed {len(emits)} emitted lines for {res.distinct} states')
        chk.notes.setdefault('instances', []).append({'tag': tag, 'tokens': toks, 'max_len': ml, 'guided': guided, 'strings': len(emits)})
        items = [(render(e['k']), e['r'], e['k']) for e in emits]
        if not guided:
            MALFORMED.extend(items)
        else:
            OFFSETS.extend((render(e['k']), e['r'], e['k']) for e in emits)
        if guided:
            items += [(render(e['k'], compact=True), e['r'], e['k']) for e in emits]
        compare(chk, items, tag)
        pick = [e for e in emits if e['r'] not in 'EUB' and len(e['k']) >= 5]
        if pick:
            e = pick[len(pick) // 2]
            chk.sample({'instance': tag, 'text': render(e['k']), 'expected': e['r']})
    # malformed text in every place a numeric expression is written: rejected there too (nothing of the line may be dropped silently)
    bad = [it for it in MALFORMED if it[1] == 'E']
    rng.shuffle(bad)
    bad = bad[:150 if quick else 1500]
    ctxs = ['.4byte {t}\n', '.byte 1, {t}\n', 'KQ = {t}\n.byte 1\n', '.align {t}\n.byte 1\n', '.org {t}\n.byte 1\n', '.fill 1, {t}\n', '.fill {t}, 1\n',
            '.zero {t}\n', 'ld8 {t}\n', '#if {t}\n.byte 1\n#endif\n.byte 2\n']
    jobs = [(c.format(t=tx), tx) for tx, _, _ in bad for c in ctxs if tx.strip()]
    # the same malformed token strings written without blanks, and digit strings that only LOOK like numbers of some other language
    # (a leading plus sign, digit group separators): there is no unary plus and there are no separators
    compact_bad = [render(k, compact=True) for _, _, k in bad[:60 if quick else 400]]
    lookalike = ['+5', '+0', '1_0', '1_000', '0_1', '+0x10', '+$10', '5_']
    jobs += [(c.format(t=tx), tx) for tx in compact_bad + lookalike for c in ctxs if tx.strip()]
    outs = runner.pmap(_e2e_src, [j[0] for j in jobs])
    for (src, tx), o in zip(jobs, outs):
        chk.traces += 1
        if not o.startswith(('err', 'timeout')):
            chk.violation(f'"{tx}" is not a well-formed expression, but the program {src!r} assembles (image {o})',
                          {'config': carrier_yaml(), 'files': {'main.asm': src}}, 'rejected', o, {'kind': 'accepts-malformed-e2e'})
    chk.notes['malformed_end_to_end'] = len(jobs)
    # an expression that continues a register: [a - 2 + 1] is the register plus the value of "- 2 + 1" (ordinary arithmetic: -1), so for a
    # string "x op rest" over + - * ( ) whose first term is the number x, the offset of [a op rest] is value("x op rest") - x
    offs = []
    for tx, exp, toks in OFFSETS:
        if len(toks) >= 3 and toks[0][0] == 'n' and toks[1][0] in '+-' and exp not in 'EUB' and all(t in ('n', '+', '-', '*', '(', ')') for t, _ in toks):
            off = int(exp) - toks[0][1]
            if -128 <= off <= 127:
                offs.append((f'ldo [a {render(toks[1:])}]\n', off))
    rng.shuffle(offs)
    offs = offs[:400 if quick else 4000]
    outs = runner.pmap(_e2e_src, [o[0] for o in offs])
    for (src, off), o in zip(offs, outs):
        chk.traces += 1
        chk.nontriv(('offset', src))
        want = bytes([0xD0, 1, off & 0xFF]).hex()
        if o != want:
            chk.violation(f'{src.strip()}: image {o}, ordinary arithmetic makes the offset {off} ({want})', {'config': carrier_yaml(), 'files': {'main.asm': src}}, want, o, {'kind': 'offset'})
    chk.notes['register_offset_expressions'] = len(offs)
    # literal notations
    res = tlc.run_tlc('Literals', 'SPECIFICATION Spec\nCONSTANTS MaxDigits = %d\nINVARIANT ValueBound\nINVARIANT Positional\nINVARIANT Emit\n'
                      % (3 if quick else 4), workers=4)
    chk.add_tlc(res)
    items = []
    for e in res.emits:
        t = lit_text(e['n'], e['d'])
        if e['n'] == 'chr' and e['d'][0] == 59:
            continue   # ';' handled end to end below
        items.append((t, str(e['v']), e))
        items.append((f'{t} + 1', str(e['v'] + 1), e))
        items.append((f'-{t}', str(-e['v']), e))
        items.append((f'2 * ({t})', str(2 * e['v']), e))
    compare(chk, items, 'literals')
    chk.notes['literals'] = len(res.emits)
    # look-alikes: a blank inside a literal makes two tokens, which is not a well-formed expression - whatever was evaluated before
    # (each literal is evaluated first, then its blank-split spellings, in the same process)
    look = []
    for e in res.emits:
        t = lit_text(e['n'], e['d'])
        if e['n'] == 'chr' or len(t) < 2:
            continue
        look.append((t, str(e['v']), e))
        look.append((f'{t} + {t}', str(2 * e['v']), e))
        for i in range(1, len(t)):
            look.append((t[:i] + ' ' + t[i:], 'E', e))
            look.append((f'{t} + {t[:i]} {t[i:]}', 'E', e))
    compare(chk, look, 'literal-lookalikes')
    chk.notes['literal_lookalikes'] = len(look)
    chk.sample({'instance': 'literals', 'text': items[-2][0], 'expected': items[-2][1]})
    # end to end: .4byte <expr> in the image (little endian carrier)
    good = [it for it in items if it[1] not in 'EUB'][:200]
    cases = []
    for tx, exp, _ in good + [("';'", '59', None), ("';' + 1", '60', None)]:
        cases.append((tx, int(exp)))
    # character literals written with the character itself: a tab, a blank, punctuation that means something elsewhere on a line
    for code in (9, 32, 33, 34, 35, 36, 37, 40, 44, 46, 58, 61, 64, 91, 95, 124, 126):
        cases.append((f"'{chr(code)}'", code))
        cases.append((f"'{chr(code)}' * 256 + '{chr(code)}'", code * 257))
    outs = runner.pmap(_e2e, [c[0] for c in cases])
    for (tx, v), o in zip(cases, outs):
        chk.traces += 1
        want = (v & 0xFFFFFFFF).to_bytes(4, 'little').hex()
        if o != want:
            chk.violation(f'.4byte {tx}: image {o}, expected {want}', {'config': carrier_yaml(), 'files': {'main.asm': f'.4byte {tx}\n'}}, want, o,
                          {'kind': 'e2e'})
    # values of 53..200 bits: exact quotients and truncation checked with limb arithmetic
    big_part(chk, 3200 if quick else 64000)
    chk.exhaustive = True


def _e2e_src(src):
    r = runner.run_case({'config': carrier_yaml(), 'files': {'main.asm': 'lab6 = 6\nlab5 = 5\n' + src}})
    return r['image'].hex() if r.get('image') is not None else f'{r["status"]}: {(r.get("msg") or "")[:80]}'


def _e2e(tx):
    r = runner.run_case({'config': carrier_yaml(), 'files': {'main.asm': f'lab6 = 6\nlab5 = 5\n.4byte {tx}\n'}})
    return r['image'].hex() if r.get('image') is not None else f'{r["status"]}: {(r.get("msg") or "")[:80]}'
