#!/bin/sh
# Offline setup: nothing is fetched or built. Syntax-check every specification module with SANY and byte-compile the harness.
cd "$(dirname "$0")" || exit 1
fail=0
for f in spec/*.tla; do
  out=$(cd spec && java -cp /opt/veriftools/tla/tla2tools.jar:/opt/veriftools/tla/CommunityModules-deps.jar tla2sany.SANY "$(basename "$f")" 2>&1)
  if echo "$out" | grep -q -E 'Parse Error|Semantic errors|Could not parse|Fatal errors|Lexical error'; then
    echo "SANY FAILED: $f"; echo "$out" | tail -20; fail=1
  fi
done
/venv/bin/python -m compileall -q harness checks check.py >/dev/null || fail=1
/venv/bin/python -c "import sys; sys.path.insert(0,'.'); from harness import runner; runner.import_repo(); print('bespokeasm imported from', runner.REPO_SRC)" || fail=1
mkdir -p evidence replays
exit $fail
