#!/usr/bin/env python3
"""Generates /verif/MANIFEST.json from the table below (kept in one place so that it stays valid)."""
import json
import os
import subprocess

VERIF = os.path.dirname(os.path.dirname(os.path.abspath(__file__)))

REPLAY = 'TLC-enumerated scenarios replayed into the real code'
CLAIMS = {
    'C02': ('Asm.tla generative instances (MC_Asm: AlphaC02core/wide) + replay (status, per-line address, per-line bytes, image)',
            'Bounded model checking of the composed pipeline specification (Contiguity, ReservedEqualsEmitted, LabelIsNextAddress, AlignIsLeastMultiple hold for every program up to the bound) and conformance of the implementation to that specification on every enumerated program: exhaustive inside the bound (all programs up to 4-5 lines over a 12-27 letter alphabet), sampled beyond it by TLC simulation to 8-10 lines. Exhaustive small-scope coverage is the right level for cursor arithmetic and boundary slips, which manifest in short programs.',
            'TLC, the carrier ISA, the renderer and the listing parser are trusted; programs longer than the bound and ISAs other than the carrier are covered only by sampling / other checks.'),
    'C03': ('Asm.tla generative instances x address windows + replay (whole image)',
            'WindowFaithful and MemIsUnmutedBytes model-checked on the specification for every program up to the bound and every window in a grid (start/end inside, at the edge of and beyond multi-byte lines, no end, two fill values); the implementation image is compared byte for byte with the specification image for every enumerated (program, window).',
            'window grid and program bound are finite; in-process Assembler call stands for the CLI (CLI argument handling is covered by C14/C15 subprocess runs).'),
    'C04': ('Asm.tla generative instances (placements) + replay (accept / reject-for-overlap / image)',
            'NoSilentOverlap and OverlapRejectionJustified (adjacent check = pairwise disjointness) model-checked for all placements of up to 4-5 byte lines of size 0..3; implementation compared on accept/reject, overlap-vs-other rejection and image.',
            'rejection reason classified by message substring; muted/unmuted overlaps are left open by the property and not generated.'),
    'C05': ('Asm.tla generative instances (two zone layouts in a 5-bit space) + replay (status, address, image)',
            'InsideZoneAndGlobal, Contiguity (per-zone concatenation) and the zone-creation rules model-checked for every program up to the bound over two zone layouts (default and redefined GLOBAL, overlapping / partly-outside predefined zones, source-created zones of every kind); implementation compared on accept/reject, per-line address and image.',
            'two fixed layouts; bound on program length; included files rendered as real files.'),
    'C06': ('Asm.tla generative instances (scopes, includes) + replay (status, image)',
            'ResolvesOnlyToVisible / NoDuplicateKeys model-checked for every arrangement up to the bound of global/file/local definitions and references over up to 3 files; the implementation must accept/reject alike and the operand bytes must name the definition the specification resolves to.',
            'names drawn from a fixed small set; bound on program length.'),
    'C08': ('Asm.tla generative instances (directive sequences) + replay (status, image)',
            'ActiveEqualsSelected (operational condition stack = declarative reading of the statement) model-checked for every directive sequence up to 5-8 lines; implementation compared on dangling/redefinition rejection and on exactly which marker bytes / label, constant, symbol and zone definitions appear in the image.',
            'conditions are S == v, defined(S), S != 0 over three symbols; unterminated blocks and evaluated conditions over valueless symbols are not generated.'),
    'C14': ('Outcome.tla (FailClosed, Termination) + batch trace validation of outside observations (Trace_Outcome.tla) + replay',
            'The outcome automaton is model-checked (fail-closed, success-means-written, progress variants, termination under fairness); every real run (TLC-enumerated programs with zero-length lines everywhere, seeded text corruptions of rendered and repository programs, fatal injections) is observed from outside (sentinel image, exit class, watchdog) and its observation trace must be a behaviour of the automaton; CLI subprocess sample for real exit status.',
            'termination is bounded by a watchdog; corruption sample is seeded, not exhaustive.'),
    'C15': ('Include.tla OrderIndependent + multi-process replay under different hash seeds / -I orders / cwd / environment',
            'The only free order in the specification (iteration over the directory set) is model-checked to be irrelevant; the implementation is run on every include-graph configuration, rendered programs and the repository corpus in 4-16 interpreter processes with different hash seeds and all outputs compared byte for byte.',
            'hash seeds are sampled; the quantifier over all seeds cannot be exhausted.'),
    'C16': ('Asm.tla generative instances + four format decoders compared with the specification memory map',
            'For every accepted enumerated program (sparse maps, muted regions, zero-length and long lines, includes, predefined data; address widths 8/16/24) each of the four outputs is decoded and must equal the specification memory map, and the listing must show every statement once with its address and bytes.',
            'the decoders (harness/formats.py) are trusted base; syntax validity of Intel HEX is decided by the decoder, not by TLC.'),
    'C17': ('Asm.tla include brackets (IncludeIsPaste) + Include.tla include graphs, both replayed with real files/directories',
            'IncludeIsPaste (split = pasted where pasting is expressible) and scope/zone/region continuation model-checked for every bracketed program up to the bound; every include graph over two library files x every placement of copies x -I sets x duplicate spellings is enumerated and replayed (twice / missing / ambiguous rejections).',
            'conditional chains spanning an include boundary are left open; two library files.'),
    'C01': ('Bits.tla/Pack.tla (packing machine = flat layout) + Encode.tla (field list from variant configuration) replayed into PackedBits / AssembledInstruction and end to end through generated ISA definitions',
            'MachineEqualsLayout, EachFieldAtItsOffset, AlignedOnByteBoundary, LengthIsCeil8, PaddingIsZero, LittleIsByteReversed model-checked for every field list up to 2-3 fields over widths 1..16 x alignment x byte order x boundary values; GroupsInOrder and ReverseTouchesOnlyItsGroup for every variant layout up to 2 operands; every list is replayed into the real packer and every layout into a generated ISA definition whose statement is assembled at two addresses in two different programs (bytes must equal the layout, independent of context).',
            'field widths in the TLC instances are at most 16 bits (TLC integers are 32 bit); operand types realising the fields are rotated over nine types.'),
    'C07': ('Expr.tla (descent machine = split evaluator) + Literals.tla, every token string replayed into parse_expression/get_value',
            'DescentEqualsSplit, LeftAssoc, UnaryBindsTightest model-checked on ALL token strings up to length 5-6 over a core alphabet and on all well-formed expressions up to length 7-9 over three alphabets covering every operator, unary minus, LSB/BYTEn, labels and junk; Literals.tla enumerates digit strings in all seven notations; every string is evaluated by the real parser (spaced and compact spelling) and a sample end to end through .4byte.',
            'values are exact rationals in the model; results beyond 2^24 and the cases the property leaves open (negative %, bitwise/shift on non-integers or negatives) are skipped and counted.'),
    'C09': ('Symbols.tla (recursive expansion = leftmost/rightmost single-step rewriting) replayed line by line into one Preprocessor object and end to end',
            'UniqueNormalForm, NoDefinedSymbolRemains, OnlyWholeWords, CycleRejected, RedefinitionRejected model-checked for every history up to 4-5 lines of definitions and uses over identifiers that are prefixes/suffixes/infixes of one another, with and without ISA- and command-line-defined symbols; every history replayed into the real Preprocessor (same object across lines) and a sample through #define/.byte/-D/predefined.symbols.',
            'identifier universe of four names; a cyclic symbol that is never used is not required to be rejected.'),
    'C10': ('Macro.tla (variant selection, placeholder filling, per-step assembly with Bits!Flat) replayed through generated ISA definitions with macros, plus the hand-expanded sequence',
            'SizeIsSum and StepsAreWholeBytes model-checked for every macro of up to 2-3 steps over 11 step templates (4/8/12/16-bit steps, @ARG/@REG/@OP, address-relative steps from start and end) x 5 operand patterns x optional second variant x 7 invocations (literal, forward/backward label, register, indirect, two operands, none); the real assembler must produce the expanded bytes and the following label value, reject unfillable placeholders, and give the same image for the hand-expanded sequence.',
            'fixed base instruction set of seven instructions.'),
    'C11': ('Data.tla (arbitrary-precision two\'s complement reduction, strings as character codes, fills) replayed end to end',
            'LengthIsWidthTimesCount, HighBytesIrrelevant, NegationIsComplement, ZeroUntilInclusive model-checked over every scenario: widths 1/2/4/8 x both byte orders x values on every boundary of every width (to 10 bytes, both signs), strings of up to 2-3 characters over 12 plain and escaped characters in five directive forms with three terminators, fills/zero/zerountil around the current address; each scenario spelled in rotating notations (decimal, $hex, 0x, unary minus, forward-label-relative) and assembled.',
            'characters limited to printable ASCII and the listed escapes.'),
    'C12': ('Constraints.tla (ordered checks = declarative admissible set) replayed through generated ISA definitions',
            'RejectIffInadmissible, WidthRange, FieldFits model-checked over: all widths 1..9 with ALL values in [-2^w-2, 2^w+2] and 12/16/20 around every boundary, min/max grids, relative offsets from instruction start and last byte (sizes 2 and 3, 4- and 8-bit fields), numeric enumerations, zone membership under a predefined zone and a redefined GLOBAL, sliced addresses around page boundaries; each scenario assembled and compared on accept/reject and the value carried by the field.',
            'slice_lsb without match_address_msb left open.'),
    'C13': ('Match.tla (nested loops = least accepting choice) replayed through generated deliberately ambiguous ISA definitions',
            'SelectedIsLeastAccepting, RegisterNeverNumeric, NoAcceptingMeansRejected model-checked for ISAs of up to 2-3 variants built from specific operand lists and a catalogue of eleven overlapping operand sets (definition order different from rank order, same-type ties, disallowed pairs) x eleven operand text classes; the bytes name the chosen variant and alternatives; all statements an ISA accepts are also assembled together in three orders (history independence).',
            'the acceptance predicate per operand type over text classes is part of the specification.'),
    'C18': ('Lexer.tla (Tokenize(Render(P, c)) = P) with every rendering spelled and assembled',
            'RoundTrip model-checked for every statement list up to 2-4 statements x per-statement style (case, blank kind/amount, comments incl. quotes/semicolons, own line / joined / blank line); each rendering is assembled by the real code and must give Bytes(P).',
            'only the rewrites the property lists; styles beyond two statements use a 10-style covering subset.'),
    'C19': ('Config.tla (ordered loader checks = well-formedness; version order; #require) replayed through generated definitions',
            'ValidateIffWellFormed, SingleFaultRejected, GateIsVersionOrder, OperatorsConsistent model-checked over 6 base shapes x 20 single faults, min_version over release triples and pre-releases against running/minimum versions, #require over operators x versions x name match; every scenario generated as a real definition/program; all repository definitions loaded.',
            'fault catalogue is fixed; accepted = a two-line program assembles.'),
    'C20': ('Ext.tla (vocabulary -> class of each probe word) compared with the syntax patterns of both generated packages',
            'VocabularyClassified model-checked for all 1920 well-formed vocabularies; for each, both real generators are run, every produced file parsed (JSON/YAML/plist/XML/zip) and searched for placeholder residue, and each of 75 probes classified by the generated patterns must equal Class(probe); repository definitions likewise.',
            'Python re stands for Oniguruma on the constructs the templates use; well-formedness decided by standard parsers.'),
}

NOT_YET = {}


def main():
    props = [json.loads(l) for l in open(os.path.join(VERIF, 'properties.jsonl'))]
    hooks_commits = []
    try:
        out = subprocess.run(['git', '-C', '/repo', 'log', '--format=%H %s'], capture_output=True, text=True).stdout
        hooks_commits = [l.split()[0] for l in out.splitlines() if ' verif hook' in l or 'verification hook' in l]
    except Exception:
        pass
    checks = []
    na = []
    for p in props:
        pid = p['id']
        if pid in CLAIMS and os.path.exists(os.path.join(VERIF, 'checks', pid.lower() + '.py')):
            tech, text, note = CLAIMS[pid]
            checks.append({
                'property_id': pid,
                'quick_cmd': f'./check {pid} --tier quick',
                'thorough_cmd': f'./check {pid} --tier thorough',
                'evidence_file': f'/verif/evidence/{pid}.json',
                'replay_cmd_template': f'./check {pid} --replay {{path}}',
                'engine': 'tlc+replay',
                'level_claimed': {'category': 'model_checking', 'text': text, 'design_ref': f'DESIGN.md section 6 ({pid}) and section 12'},
                'level_note': note,
                'technique': 'explicit TLA+ specification model-checked with TLC; ' + tech,
            })
        else:
            na.append({'property_id': pid, 'reason': NOT_YET.get(pid, 'check under construction in this round; not yet claimed')})
    man = {
        'version': 1,
        'setup_cmd': 'cd /verif && ./setup.sh',
        'hooks': {
            'guard': 'MICHAELKAMPRATH_BESPOKEASM_VERIF',
            'enable': 'export MICHAELKAMPRATH_BESPOKEASM_VERIF=1 and BESPOKEASM_VERIF_TRACE=<ndjson path> before importing bespokeasm; the package is imported from /repo/src (editable install), nothing to build',
            'baseline_off_cmd': 'cd /repo && env -u MICHAELKAMPRATH_BESPOKEASM_VERIF /venv/bin/python -m pytest -ra -q -p no:cacheprovider --timeout=900 --continue-on-collection-errors',
            'source_commits': hooks_commits,
            'add_only': True,
        },
        'engines': [
            {'name': 'tlc+replay', 'path': '/verif/check.py',
             'serves_properties': [c['property_id'] for c in checks],
             'kind_free_text': 'TLC 1.8 model-checks the TLA+ modules under /verif/spec (bounded instances), emits every terminal scenario with its expected observation as JSON, the Python harness renders each scenario to ISA + source files, runs the real bespokeasm from /repo/src and compares the property projection; trace specifications (Trace_*.tla) validate observations recorded from real runs.'},
        ],
        'checks': checks,
        'notes': 'All checks: exit 0 held / exit 1 VIOLATION / exit 2 machinery failure. Fix commits made to /repo for genuine defects are listed in known_findings.json (state fixed).',
        'not_applicable': na,
    }
    with open(os.path.join(VERIF, 'MANIFEST.json'), 'w') as f:
        json.dump(man, f, indent=1)
    print('claimed', [c['property_id'] for c in checks])


if __name__ == '__main__':
    main()
