#!/usr/bin/env python3
"""Generates /verif/MANIFEST.json from the table below (kept in one place so that it stays valid)."""
import json
import os
import subprocess

VERIF = os.path.dirname(os.path.dirname(os.path.abspath(__file__)))

REPLAY = 'TLC-enumerated scenarios replayed into the real code'
CLAIMS = {
    'C02': ('Asm.tla generative instances (MC_Asm: AlphaC02core/wide) + replay (status, per-line address, per-line bytes, image)',
            'Bounded model checking of the composed pipeline specification (Contiguity, ReservedEqualsEmitted, LabelIsNextAddress, AlignIsLeastMultiple hold for every program up to the bound) and conformance of the implementation to that specification on every enumerated program: exhaustive inside the bound (all programs up to 4-5 lines over a 12-27 letter alphabet), sampled beyond it by TLC simulation to 8-10 lines. Exhaustive small-scope coverage is the right level for cursor arithmetic and boundary slips, which manifest in short programs.',
            'TLC, the carrier ISA, the renderer and the listing parser are trusted; programs longer than the bound and ISAs other than the carrier are covered only by sampling / other checks.'),
    'C03': ('Asm.tla generative instances x address windows + replay (whole image)',
            'WindowFaithful and MemIsUnmutedBytes model-checked on the specification for every program up to the bound and every window in a grid (start/end inside, at the edge of and beyond multi-byte lines, no end, two fill values); the implementation image is compared byte for byte with the specification image for every enumerated (program, window).',
            'window grid and program bound are finite; in-process Assembler call stands for the CLI (CLI argument handling is covered by C14/C15 subprocess runs).'),
    'C04': ('Asm.tla generative instances (placements) + replay (accept / reject-for-overlap / image)',
            'NoSilentOverlap and OverlapRejectionJustified (adjacent check = pairwise disjointness) model-checked for all placements of up to 4-5 byte lines of size 0..3; implementation compared on accept/reject, overlap-vs-other rejection and image.',
            'rejection reason classified by message substring; muted/unmuted overlaps are left open by the property and not generated.'),
    'C05': ('Asm.tla generative instances (two zone layouts in a 5-bit space) + replay (status, address, image)',
            'InsideZoneAndGlobal, Contiguity (per-zone concatenation) and the zone-creation rules model-checked for every program up to the bound over two zone layouts (default and redefined GLOBAL, overlapping / partly-outside predefined zones, source-created zones of every kind); implementation compared on accept/reject, per-line address and image.',
            'two fixed layouts; bound on program length; included files rendered as real files.'),
    'C06': ('Asm.tla generative instances (scopes, includes) + replay (status, image)',
            'ResolvesOnlyToVisible / NoDuplicateKeys model-checked for every arrangement up to the bound of global/file/local definitions and references over up to 3 files; the implementation must accept/reject alike and the operand bytes must name the definition the specification resolves to.',
            'names drawn from a fixed small set; bound on program length.'),
    'C08': ('Asm.tla generative instances (directive sequences) + replay (status, image)',
            'ActiveEqualsSelected (operational condition stack = declarative reading of the statement) model-checked for every directive sequence up to 5-8 lines; implementation compared on dangling/redefinition rejection and on exactly which marker bytes / label, constant, symbol and zone definitions appear in the image.',
            'conditions are S == v, defined(S), S != 0 over three symbols; unterminated blocks and evaluated conditions over valueless symbols are not generated.'),
    'C14': ('Outcome.tla (FailClosed, Termination) + batch trace validation of outside observations (Trace_Outcome.tla) + replay',
            'The outcome automaton is model-checked (fail-closed, success-means-written, progress variants, termination under fairness); every real run (TLC-enumerated programs with zero-length lines everywhere, seeded text corruptions of rendered and repository programs, fatal injections) is observed from outside (sentinel image, exit class, watchdog) and its observation trace must be a behaviour of the automaton; CLI subprocess sample for real exit status.',
            'termination is bounded by a watchdog; corruption sample is seeded, not exhaustive.'),
    'C15': ('Include.tla OrderIndependent + multi-process replay under different hash seeds / -I orders / cwd / environment',
            'The only free order in the specification (iteration over the directory set) is model-checked to be irrelevant; the implementation is run on every include-graph configuration, rendered programs and the repository corpus in 4-16 interpreter processes with different hash seeds and all outputs compared byte for byte.',
            'hash seeds are sampled; the quantifier over all seeds cannot be exhausted.'),
    'C16': ('Asm.tla generative instances + four format decoders compared with the specification memory map',
            'For every accepted enumerated program (sparse maps, muted regions, zero-length and long lines, includes, predefined data; address widths 8/16/24) each of the four outputs is decoded and must equal the specification memory map, and the listing must show every statement once with its address and bytes.',
            'the decoders (harness/formats.py) are trusted base; syntax validity of Intel HEX is decided by the decoder, not by TLC.'),
    'C17': ('Asm.tla include brackets (IncludeIsPaste) + Include.tla include graphs, both replayed with real files/directories',
            'IncludeIsPaste (split = pasted where pasting is expressible) and scope/zone/region continuation model-checked for every bracketed program up to the bound; every include graph over two library files x every placement of copies x -I sets x duplicate spellings is enumerated and replayed (twice / missing / ambiguous rejections).',
            'conditional chains spanning an include boundary are left open; two library files.'),
}

NOT_YET = {}


def main():
    props = [json.loads(l) for l in open(os.path.join(VERIF, 'properties.jsonl'))]
    hooks_commits = []
    try:
        out = subprocess.run(['git', '-C', '/repo', 'log', '--format=%H %s'], capture_output=True, text=True).stdout
        hooks_commits = [l.split()[0] for l in out.splitlines() if ' verif hook' in l or 'verification hook' in l]
    except Exception:
        pass
    checks = []
    na = []
    for p in props:
        pid = p['id']
        if pid in CLAIMS and os.path.exists(os.path.join(VERIF, 'checks', pid.lower() + '.py')):
            tech, text, note = CLAIMS[pid]
            checks.append({
                'property_id': pid,
                'quick_cmd': f'./check {pid} --tier quick',
                'thorough_cmd': f'./check {pid} --tier thorough',
                'evidence_file': f'/verif/evidence/{pid}.json',
                'replay_cmd_template': f'./check {pid} --replay {{path}}',
                'engine': 'tlc+replay',
                'level_claimed': {'category': 'model_checking', 'text': text, 'design_ref': f'DESIGN.md section 6 ({pid}) and section 12'},
                'level_note': note,
                'technique': 'explicit TLA+ specification model-checked with TLC; ' + tech,
            })
        else:
            na.append({'property_id': pid, 'reason': NOT_YET.get(pid, 'check under construction in this round; not yet claimed')})
    man = {
        'version': 1,
        'setup_cmd': 'cd /verif && ./setup.sh',
        'hooks': {
            'guard': 'MICHAELKAMPRATH_BESPOKEASM_VERIF',
            'enable': 'export MICHAELKAMPRATH_BESPOKEASM_VERIF=1 and BESPOKEASM_VERIF_TRACE=<ndjson path> before importing bespokeasm; the package is imported from /repo/src (editable install), nothing to build',
            'baseline_off_cmd': 'cd /repo && env -u MICHAELKAMPRATH_BESPOKEASM_VERIF /venv/bin/python -m pytest -ra -q -p no:cacheprovider --timeout=900 --continue-on-collection-errors',
            'source_commits': hooks_commits,
            'add_only': True,
        },
        'engines': [
            {'name': 'tlc+replay', 'path': '/verif/check.py',
             'serves_properties': [c['property_id'] for c in checks],
             'kind_free_text': 'TLC 1.8 model-checks the TLA+ modules under /verif/spec (bounded instances), emits every terminal scenario with its expected observation as JSON, the Python harness renders each scenario to ISA + source files, runs the real bespokeasm from /repo/src and compares the property projection; trace specifications (Trace_*.tla) validate observations recorded from real runs.'},
        ],
        'checks': checks,
        'notes': 'All checks: exit 0 held / exit 1 VIOLATION / exit 2 machinery failure. Fix commits made to /repo for genuine defects are listed in known_findings.json (state fixed).',
        'not_applicable': na,
    }
    with open(os.path.join(VERIF, 'MANIFEST.json'), 'w') as f:
        json.dump(man, f, indent=1)
    print('claimed', [c['property_id'] for c in checks])


if __name__ == '__main__':
    main()
