#!/bin/sh
# demo_recheck.sh: for every seeded change, on a scratch worktree of /repo HEAD: the demo must exit 0 without and 1 with the patch
W=/tmp/wtdemo
git -C /repo worktree remove --force $W 2>/dev/null; git -C /repo worktree prune
git -C /repo worktree add -q --detach $W HEAD || exit 2
for d in /verif/seeded/C*/; do
  s=$(basename $d)
  cd $W && git checkout -q -- . && git clean -fdq
  r0=$(cd /tmp && PYTHONPATH=$W/src timeout 300 /venv/bin/python $d/demo.py >/dev/null 2>&1; echo $?)
  if ! git apply $d/patch.diff 2>/dev/null; then echo "$s NOAPPLY"; continue; fi
  r1=$(cd /tmp && PYTHONPATH=$W/src timeout 300 /venv/bin/python $d/demo.py >/dev/null 2>&1; echo $?)
  echo "$s pristine=$r0 changed=$r1"
done
cd /; git -C /repo worktree remove --force $W; git -C /repo worktree prune
