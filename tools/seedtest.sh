#!/bin/sh
# tools/seedtest.sh <patch.diff> <property> [tier]   -- apply a seeded change to /repo, run the check, undo the change
patch="$1"; prop="$2"; tier="${3:-quick}"
cd /repo || exit 2
if ! git diff --quiet -- src; then echo "repo src dirty"; exit 2; fi
if ! git apply "$patch" 2>/dev/null; then echo "patch does not apply"; git checkout -- . ; exit 2; fi
cd /verif && ./check "$prop" --tier "$tier" > /tmp/seedtest.$$.log 2>&1; rc=$?
git -C /repo checkout -- . 
grep -c '^VIOLATION' /tmp/seedtest.$$.log | sed "s/^/violations: /"
grep -m3 -A1 '^VIOLATION' /tmp/seedtest.$$.log | cut -c1-300
tail -1 /tmp/seedtest.$$.log
rm -f /tmp/seedtest.$$.log
echo "exit=$rc"
