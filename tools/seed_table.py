#!/usr/bin/env python3
"""Rewrites the seeded-change table of DESIGN.md 12.6 from seeded/*/meta.json (after tools/seed_sweep.py)."""
import json
import os
import re

VERIF = os.path.dirname(os.path.dirname(os.path.abspath(__file__)))


def cell(t, n):
    t = re.sub(r'\s+', ' ', str(t or '')).replace('|', '/').strip()
    return t[:n]


def main():
    rows = []
    for sid in sorted(d for d in os.listdir(os.path.join(VERIF, 'seeded')) if os.path.isfile(os.path.join(VERIF, 'seeded', d, 'meta.json'))):
        m = json.load(open(os.path.join(VERIF, 'seeded', sid, 'meta.json')))
        d = m.get('detected', {})
        det = f"`{d.get('check', '?')}` exit {d.get('exit', '?')}" if 'check' in d else cell(d.get('error', 'not run'), 60)
        rows.append(f"| {sid} | {cell(m.get('needs_to_manifest'), 220)} | {det} | {cell(d.get('first_violation'), 110)} |")
    p = os.path.join(VERIF, 'DESIGN.md')
    s = open(p).read()
    head = '| id | needs, to manifest | detected by | first violation reported |\n|---|---|---|---|\n'
    i = s.index(head) + len(head)
    j = s.index('\n\n', i)
    s = s[:i] + '\n'.join(rows) + s[j:]
    open(p, 'w').write(s)
    missed = [r.split('|')[1].strip() for r in rows if 'exit 1' not in r]
    print(len(rows), 'rows; not detected:', missed)


if __name__ == '__main__':
    main()
