#!/bin/sh
# verify_seed.sh <prop> <k> <patch>
prop=$1; k=$2; patch=$3
W=/tmp/wtv
cd $W && git checkout -q -- . && git clean -fdq
demo=/tmp/wt/$prop/_out/demo$k.py
r0=$(cd /tmp && PYTHONPATH=$W/src timeout 300 /venv/bin/python $demo >/dev/null 2>&1; echo $?)
if ! git apply --check "$patch" 2>/dev/null; then echo "$prop/$k NOAPPLY pristine_demo=$r0"; exit; fi
git apply "$patch"
t=$(PYTHONPATH=$W/src timeout 600 /venv/bin/python -m pytest -q -p no:cacheprovider test 2>&1 | tail -1)
r1=$(cd /tmp && PYTHONPATH=$W/src timeout 300 /venv/bin/python $demo >/dev/null 2>&1; echo $?)
git checkout -q -- . 
echo "$prop/$k pristine_demo=$r0 changed_demo=$r1 tests: $t"
