#!/usr/bin/env python3
"""Runs every seeded change under /verif/seeded against the check of the property it breaks (and optionally others) in a
scratch worktree of /repo (never in /repo itself), and records the outcome in seeded/<id>/meta.json.

usage: tools/seed_sweep.py [--tier quick] [ids...]"""
import json
import os
import shutil
import subprocess
import sys
import tempfile

VERIF = os.path.dirname(os.path.dirname(os.path.abspath(__file__)))


def main():
    args = [a for a in sys.argv[1:] if not a.startswith('--')]
    tier = 'quick'
    if '--tier' in sys.argv:
        tier = sys.argv[sys.argv.index('--tier') + 1]
        args = [a for a in args if a != tier]
    ids = args or sorted(os.listdir(os.path.join(VERIF, 'seeded')))
    wt = tempfile.mkdtemp(prefix='vseedwt_')
    os.rmdir(wt)
    subprocess.run(['git', '-C', '/repo', 'worktree', 'add', '-q', '--detach', wt, 'HEAD'], check=True)
    scratch = tempfile.mkdtemp(prefix='vseedout_')
    try:
        for sid in ids:
            d = os.path.join(VERIF, 'seeded', sid)
            meta = json.load(open(os.path.join(d, 'meta.json')))
            prop = meta['breaks_property']
            subprocess.run(['git', '-C', wt, 'checkout', '-q', '--', '.'], check=True)
            ap = subprocess.run(['git', '-C', wt, 'apply', os.path.join(d, 'patch.diff')], capture_output=True, text=True)
            if ap.returncode != 0:
                print(sid, 'PATCH DOES NOT APPLY', ap.stderr[:200])
                meta['detected'] = {'error': 'patch does not apply to current /repo HEAD'}
                json.dump(meta, open(os.path.join(d, 'meta.json'), 'w'), indent=1)
                continue
            env = dict(os.environ, VERIF_REPO_SRC=os.path.join(wt, 'src'), VERIF_REPO=wt,
                       VERIF_EVIDENCE_DIR=os.path.join(scratch, 'ev'), VERIF_REPLAY_DIR=os.path.join(scratch, 'rp'))
            cp = subprocess.run([os.path.join(VERIF, 'check'), prop, '--tier', tier], env=env, capture_output=True, text=True, timeout=7200)
            viol = [l for l in cp.stdout.splitlines() if l.startswith('VIOLATION')]
            first = ''
            lines = cp.stdout.splitlines()
            for i, l in enumerate(lines):
                if l.startswith('VIOLATION') and i + 1 < len(lines):
                    first = lines[i + 1].strip()[:300]
                    break
            meta['detected'] = {'check': f'./check {prop} --tier {tier}', 'exit': cp.returncode, 'violation_lines': len(viol),
                                'first_violation': first, 'summary': lines[-1] if lines else ''}
            json.dump(meta, open(os.path.join(d, 'meta.json'), 'w'), indent=1)
            print(sid, 'exit', cp.returncode, 'violations', len(viol), '|', first[:140])
            shutil.rmtree(os.path.join(scratch, 'rp'), ignore_errors=True)
    finally:
        subprocess.run(['git', '-C', '/repo', 'worktree', 'remove', '--force', wt])
        shutil.rmtree(scratch, ignore_errors=True)


if __name__ == '__main__':
    main()
