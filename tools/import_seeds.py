#!/usr/bin/env python3
"""tools/import_seeds.py <round dir> <first index>: verify every <round dir>/Cxx/_out/change<k>.diff in a scratch worktree of /repo HEAD
(81 tests pass with the change, demo exits 1 with it and 0 without) and keep the confirmed ones as /verif/seeded/Cxx-<n>/."""
import json
import os
import re
import shutil
import subprocess
import sys
import tempfile

VERIF = os.path.dirname(os.path.dirname(os.path.abspath(__file__)))


def sh(cmd, **kw):
    return subprocess.run(cmd, shell=True, capture_output=True, text=True, **kw)


def main():
    rd, first = sys.argv[1], int(sys.argv[2])
    wt = tempfile.mkdtemp(prefix='vimpwt_')
    os.rmdir(wt)
    sh(f'git -C /repo worktree add -q --detach {wt} HEAD')
    env = dict(os.environ, PYTHONPATH=f'{wt}/src')
    try:
        for prop in sorted(d for d in os.listdir(rd) if re.fullmatch(r'C\d\d', d)):
            for k in (1, 2):
                out = os.path.join(rd, prop, '_out')
                patch, demo, notes = (os.path.join(out, f) for f in (f'change{k}.diff', f'demo{k}.py', f'notes{k}.md'))
                if not all(os.path.exists(p) for p in (patch, demo, notes)):
                    print(prop, k, 'MISSING FILES')
                    continue
                sh(f'git -C {wt} checkout -q -- . && git -C {wt} clean -fdq')
                r0 = subprocess.run(['/venv/bin/python', demo], cwd='/tmp', env=env, capture_output=True, timeout=600).returncode
                ap = sh(f'git -C {wt} apply {patch}')
                if ap.returncode != 0:
                    print(prop, k, 'PATCH DOES NOT APPLY', ap.stderr[:120])
                    continue
                t = sh(f'cd {wt} && PYTHONPATH={wt}/src /venv/bin/python -m pytest -q -p no:cacheprovider test 2>&1 | tail -1').stdout.strip()
                r1 = subprocess.run(['/venv/bin/python', demo], cwd='/tmp', env=env, capture_output=True, timeout=600).returncode
                sh(f'git -C {wt} checkout -q -- .')
                ok = r0 == 0 and r1 == 1 and t.startswith('81 passed')
                print(prop, k, 'pristine', r0, 'changed', r1, t, 'KEEP' if ok else 'DROP')
                if not ok:
                    continue
                sid = f'{prop}-{first + k - 1}'
                d = os.path.join(VERIF, 'seeded', sid)
                os.makedirs(d, exist_ok=True)
                shutil.copy(patch, os.path.join(d, 'patch.diff'))
                shutil.copy(demo, os.path.join(d, 'demo.py'))
                shutil.copy(notes, os.path.join(d, 'notes.md'))
                text = open(notes).read()
                needs = [l.strip(' -*') for l in text.splitlines() if re.search(r'need|manifest|trigger', l, re.I)]
                meta = {'id': sid, 'breaks_property': prop,
                        'needs_to_manifest': (' '.join(needs)[:400] if needs else text.strip().splitlines()[0][:300]),
                        'origin': 'written by an independent sub-agent (seventh round) that was given only the property text, the conditions of earlier changes to avoid, and its own scratch worktree',
                        'rebased_onto_later_fix_commits': False,
                        'confirmed': {'how': 'tools/import_seeds.py: git apply in a scratch worktree of /repo HEAD; 81 repository tests; demo.py with PYTHONPATH=<worktree>/src',
                                      'tests_with_change': t, 'demo_exit_with_change': r1, 'demo_exit_without_change': r0}}
                json.dump(meta, open(os.path.join(d, 'meta.json'), 'w'), indent=1)
    finally:
        sh(f'git -C /repo worktree remove --force {wt}')


if __name__ == '__main__':
    main()
